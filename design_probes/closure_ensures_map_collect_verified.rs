use vstd::prelude::*;
verus! {
fn mk(n: usize) -> (v: Vec<u64>)
    ensures v@.len() == n, forall|i: int| 0 <= i < n ==> v@[i] == 7u64,
{
    let v: Vec<u64> = (0..n).map(|_x| -> (r: u64) ensures r == 7u64 { 7u64 }).collect();
    v
}
}
fn main(){}
