use vstd::prelude::*;
verus! {

fn cmp_test(a: f64, b: f64, c: f64) -> (r: bool)
{
    let x = a < b;
    let y = b < c;
    let z = a < c;
    if x && y {
        assert(z);   // transitivity?
    }
    if x {
        let w = b < a;
        assert(!w); // asymmetry?
    }
    x
}

fn arith(a: f64, b: f64) -> f64 {
    let c = a * b;
    let d = c + a;
    d / b
}
}
fn main(){}
