use vstd::prelude::*;
verus! {

// ---------------- dependency stubs (assumed contracts) ----------------
pub trait Rng: Sized {
    spec fn st(&self) -> int;
}
pub trait Distribution<T>: Sized {
    spec fn draw(&self, st: int) -> (T, int);
    fn sample<R: Rng>(&self, rng: &mut R) -> (r: T)
        ensures (r, final(rng).st()) == self.draw(old(rng).st());
}
#[verifier::external_body]
#[verifier::reject_recursive_types(T)]
pub struct Uniform<T> { _p: core::marker::PhantomData<T> }
pub uninterp spec fn u01_draw(st: int) -> (f64, int);
pub uninterp spec fn unit01(x: f64) -> bool;   // 0 <= x < 1 (IEEE), abstract for Verus
impl Distribution<f64> for Uniform<f64> {
    open spec fn draw(&self, st: int) -> (f64, int) { u01_draw(st) }
    #[verifier::external_body]
    fn sample<R: Rng>(&self, rng: &mut R) -> (r: f64)
    { unimplemented!() }
}
pub axiom fn u01_in_unit(st: int)
    ensures unit01(u01_draw(st).0);

// float <-> usize casts (Verus has no `as` between them): rewritten by the extractor
pub uninterp spec fn usize_to_f64_spec(n: usize) -> f64;
pub uninterp spec fn f64_to_usize_spec(x: f64) -> usize;
pub uninterp spec fn f64_mul_spec(a: f64, b: f64) -> f64;
#[verifier::external_body]
pub fn usize_to_f64(n: usize) -> (r: f64) ensures r == usize_to_f64_spec(n) { n as f64 }
#[verifier::external_body]
pub fn f64_to_usize(x: f64) -> (r: usize) ensures r == f64_to_usize_spec(x) { x as usize }
#[verifier::external_body]
pub fn f64_mul(a: f64, b: f64) -> (r: f64) ensures r == f64_mul_spec(a, b) { a * b }
// IEEE fact (assumed): floor(x*n) < n for 0<=x<1, 1<=n<=2^53
pub axiom fn scale_in_range(x: f64, n: usize)
    requires unit01(x), 1 <= n, n <= 0x20_0000_0000_0000,
    ensures f64_to_usize_spec(f64_mul_spec(x, usize_to_f64_spec(n))) < n;

pub assume_specification<T>[ <[T]>::swap ](s: &mut [T], a: usize, b: usize)
    requires a < old(s)@.len(), b < old(s)@.len(),
    ensures final(s)@ == old(s)@.update(a as int, old(s)@[b as int]).update(b as int, old(s)@[a as int]);

pub struct FYshuffle {
    pub m: usize,
    pub unif_01: Uniform<f64>,
    pub v: Vec<usize>,
    pub lastidx: usize,
}

impl FYshuffle {
    pub closed spec fn wf(&self) -> bool {
        &&& self.v@.len() == self.m
        &&& self.m <= 0x20_0000_0000_0000
        &&& self.lastidx <= self.m
        &&& forall|i: int| 0 <= i < self.m ==> 0 <= #[trigger] self.v@[i] < self.m
        &&& forall|i: int, j: int| 0 <= i < j < self.m ==> self.v@[i] != self.v@[j]
    }

    pub fn next<R: Rng>(&mut self, rng: &mut R) -> (val: usize)
        requires old(self).wf(), old(self).m >= 1,
        ensures final(self).wf(), val < final(self).m,
    {
        
        if self.lastidx >= self.m {
            self.lastidx = 0;
        }
        let xsi = self.unif_01.sample(rng);
        proof { u01_in_unit(old(rng).st()); scale_in_range(xsi, (self.m - self.lastidx) as usize); }
        // sample between self.lastidx (included) and self.m (excluded)
        let idx = self.lastidx + f64_to_usize(f64_mul(xsi, usize_to_f64(self.m - self.lastidx)));
        let val = self.v[idx];
        self.v.swap(idx, self.lastidx);
        self.lastidx += 1;
        val
    }

    pub fn reset(&mut self)
        requires old(self).v@.len() == old(self).m,
        ensures final(self).lastidx == 0, final(self).m == old(self).m,
            final(self).v@ == Seq::new(old(self).m as nat, |i: int| i as usize),
    {
        self.lastidx = 0;
        for i in 0..self.m
            invariant self.v@.len() == self.m, self.m == old(self).m, self.lastidx == 0,
                forall|j: int| 0 <= j < i ==> self.v@[j] == j as usize,
        {
            self.v[i] = i;
        }
        assert(self.v@ =~= Seq::new(old(self).m as nat, |i: int| i as usize));
    }
}
}
fn main(){}
