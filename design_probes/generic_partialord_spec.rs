use vstd::prelude::*;
use vstd::std_specs::cmp::*;
verus! {

pub struct T<V> { pub values: Vec<V>, pub m: usize }

impl<V: PartialOrd + Copy> T<V> {
    fn lt_at(&self, k: usize, value: V) -> (r: bool)
        requires k < self.values.len(), V::obeys_partial_cmp_spec(),
        ensures r == (value.partial_cmp_spec(&self.values[k as int]) == Some(core::cmp::Ordering::Less)),
    {
        value < self.values[k]
    }
}

fn f64lt(a: f64, b: f64) -> (r: bool)
    ensures r == (a.partial_cmp_spec(&b) == Some(core::cmp::Ordering::Less)),
{
    a < b
}
}
fn main(){}
