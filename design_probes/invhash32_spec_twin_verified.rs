use vstd::prelude::*;
verus! {

pub open spec fn add32(a: u32, b: u32) -> u32 { ((a as int + b as int) % 0x1_0000_0000) as u32 }
pub open spec fn mul32(a: u32, b: u32) -> u32 { ((a as int * b as int) % 0x1_0000_0000) as u32 }

pub open spec fn h32(x: u32) -> u32 {
    let key = x;
    let key = key.wrapping_add(!(key << 15));
    let key = key ^ (key >> 10);
    let key = key.wrapping_add(key << 3);
    let key = key ^ (key >> 6);
    let key = key.wrapping_add(!(key << 11));
    let key = key ^ (key >> 16);
    key
}

pub fn int32_hash(tohash: u32) -> (r: u32)
    ensures r == h32(tohash)
{
    let mut key = tohash;
    key = key.wrapping_add(!(key << 15));
    key = key ^ (key >> 10);
    key = key.wrapping_add(key << 3);
    key = key ^ (key >> 6);
    key = key.wrapping_add(!(key << 11));
    key = key ^ (key >> 16);
    key
}
}
fn main(){}
