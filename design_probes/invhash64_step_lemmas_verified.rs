use vstd::prelude::*;
verus! {
// 64-bit: generic helpers
proof fn not_neg(z: u64) by(bit_vector) ensures !z == sub(sub(0u64, z), 1u64) {}
proof fn shl_mul(x: u64) by(bit_vector)
    ensures x << 21u64 == mul(x, 0x200000u64), x << 3u64 == mul(x, 8u64), x << 8u64 == mul(x, 256u64),
            x << 2u64 == mul(x, 4u64), x << 4u64 == mul(x, 16u64), x << 31u64 == mul(x, 0x80000000u64)
{}
// step 7: key + (key<<31) ; inverse: tmp = y - (y<<31); x = y - (tmp<<31)
proof fn s7(x: u64) by(bit_vector)
    ensures ({ let y = add(x, mul(x, 0x80000000u64)); let tmp = sub(y, mul(y, 0x80000000u64)); sub(y, mul(tmp, 0x80000000u64)) == x })
{}
// step 6: x ^ x>>28 ; inverse tmp = y ^ y>>28; x = y ^ tmp>>28
proof fn s6(x: u64) by(bit_vector)
    ensures ({ let y = x ^ (x >> 28u64); let tmp = y ^ (y >> 28u64); (y ^ (tmp >> 28u64)) == x })
{}
// step 5: *21 ; inverse * 14933078535860113213
proof fn s5(x: u64) by(bit_vector)
    ensures mul(add(add(x, mul(x, 4u64)), mul(x, 16u64)), 14933078535860113213u64) == x
{}
// step 4: x ^ x>>14 ; inverse 3-fold
proof fn s4(x: u64) by(bit_vector)
    ensures ({ let y = x ^ (x >> 14u64); let t1 = y ^ (y >> 14u64); let t2 = y ^ (t1 >> 14u64); let t3 = y ^ (t2 >> 14u64); (y ^ (t3 >> 14u64)) == x })
{}
// step 3: *265
proof fn s3(x: u64) by(bit_vector)
    ensures mul(add(add(x, mul(x, 8u64)), mul(x, 256u64)), 15244667743933553977u64) == x
{}
// step 2: x ^ x>>24
proof fn s2(x: u64) by(bit_vector)
    ensures ({ let y = x ^ (x >> 24u64); let tmp = y ^ (y >> 24u64); (y ^ (tmp >> 24u64)) == x })
{}
// step 1: (!x) + (x<<21) = x*(2^21 - 1) - 1 ; inverse: t = !y; t = !(y - (t<<21)); t = !(y - (t<<21)); x = !(y - (t<<21))
proof fn s1(x: u64) by(bit_vector)
    ensures ({
        let y = add(sub(sub(0u64, x), 1u64), mul(x, 0x200000u64));
        let t0 = sub(sub(0u64, y), 1u64);
        let t1 = sub(sub(0u64, sub(y, mul(t0, 0x200000u64))), 1u64);
        let t2 = sub(sub(0u64, sub(y, mul(t1, 0x200000u64))), 1u64);
        sub(sub(0u64, sub(y, mul(t2, 0x200000u64))), 1u64) == x })
{}
}
fn main(){}
