use vstd::prelude::*;
verus! {
proof fn not_neg(z: u32) by(bit_vector)
    ensures !z == sub(sub(0u32, z), 1u32)
{}
proof fn shl11(x: u32) by(bit_vector)
    ensures x << 11u32 == mul(x, 2048u32)
{}
proof fn lin(x: u32) by(bit_vector)
    ensures mul( sub(sub(0u32, add(x, sub(sub(0u32, mul(x, 2048u32)), 1u32))), 1u32), 4290770943u32) == x
{}
proof fn s2(x: u32)
    ensures ({ let y = add(x, !(x << 11u32)); mul(!y, 4290770943u32) == x })
{
    shl11(x);
    not_neg(x << 11u32);
    let y = add(x, !(x << 11u32));
    not_neg(y);
    lin(x);
}
}
fn main(){}
