use vstd::prelude::*;
verus! {
// step lemmas 32-bit
proof fn s1(x: u32) by(bit_vector)
    ensures ({ let y = x ^ (x >> 16); y ^ (y >> 16) == x })
{}
proof fn s2(x: u32) by(bit_vector)
    ensures ({ let y = add(x, !(x << 11u32)); mul(!y, 4290770943u32) == x })
{}
proof fn s3(x: u32) by(bit_vector)
    ensures ({ let y = x ^ (x >> 6); (y ^ (y >> 6) ^ (y >> 12) ^ (y >> 18) ^ (y >> 24) ^ (y >> 30)) == x })
{}
proof fn s4(x: u32) by(bit_vector)
    ensures ({ let y = add(x, x << 3); mul(y, 954437177u32) == x })
{}
proof fn s5(x: u32) by(bit_vector)
    ensures ({ let y = x ^ (x >> 10); (y ^ (y >> 10) ^ (y >> 20) ^ (y >> 30)) == x })
{}
proof fn s6(x: u32) by(bit_vector)
    ensures ({ let y = add(x, !(x << 15u32)); mul(!y, 3221192703u32) == x })
{}
}
fn main(){}
