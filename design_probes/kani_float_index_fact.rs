#[cfg(kani)]
mod h {
    #[kani::proof]
    fn scale_in_range() {
        let xsi: f64 = kani::any();
        kani::assume(xsi >= 0.0 && xsi < 1.0);
        let n: usize = kani::any();
        kani::assume(n >= 1 && n <= (1usize << 53));
        let idx = (xsi * n as f64) as usize;
        assert!(idx < n);
    }
    #[kani::proof]
    fn scale_in_range_small() {
        let xsi: f64 = kani::any();
        kani::assume(xsi >= 0.0 && xsi < 1.0);
        let n: usize = kani::any();
        kani::assume(n >= 1 && n <= 4096);
        let idx = (xsi * n as f64) as usize;
        assert!(idx < n);
    }
}
