use vstd::prelude::*;
verus! {
#[verifier::external_body]
#[verifier::reject_recursive_types(K)]
#[verifier::reject_recursive_types(V)]
pub struct IndexMap<K, V> { _k: core::marker::PhantomData<(K, V)> }

impl<K, V> IndexMap<K, V> {
    pub uninterp spec fn entries(&self) -> Seq<(K, V)>;   // iteration order: some sequence of the entries
    #[verifier::external_body]
    pub fn iter_vec(&self) -> (r: Vec<(&K, &V)>)
        ensures r@.len() == self.entries().len(),
            forall|i: int| 0 <= i < r@.len() ==> *(#[trigger] r@[i]).0 == self.entries()[i].0 && *r@[i].1 == self.entries()[i].1,
    { unimplemented!() }
}

fn total(data: &IndexMap<u64, u64>) -> (s: u64)
{
    let mut acc: u64 = 0;
    let it = data.iter_vec();
    for (key, weight) in iter: it
        invariant true,
    {
        acc = acc.wrapping_add(*weight);
        let _k = *key;
    }
    acc
}
}
fn main(){}
