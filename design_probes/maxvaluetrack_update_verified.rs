use vstd::prelude::*;
use vstd::std_specs::cmp::*;
use core::cmp::Ordering;
verus! {

pub assume_specification<T: Clone>[ <[T]>::fill ](s: &mut [T], value: T)
    ensures final(s)@.len() == old(s)@.len(),
            forall|i: int| 0 <= i < final(s)@.len() ==> final(s)@[i] == value;

pub trait MaxValue: Sized {
    spec fn max_spec() -> Self;
    fn get_max() -> (r: Self)
        ensures r == Self::max_spec();
}

pub open spec fn lt<V: PartialOrd>(a: V, b: V) -> bool { a.partial_cmp_spec(&b) == Some(Ordering::Less) }
pub open spec fn total_order<V: PartialOrd>() -> bool {
    &&& V::obeys_partial_cmp_spec()
    &&& forall|a: V, b: V| #![auto] a.partial_cmp_spec(&b) is Some
    &&& forall|a: V, b: V| #![auto] (a.partial_cmp_spec(&b) == Some(Ordering::Equal)) <==> a == b
    &&& forall|a: V, b: V| #![auto] (a.partial_cmp_spec(&b) == Some(Ordering::Less)) <==> (b.partial_cmp_spec(&a) == Some(Ordering::Greater))
    &&& forall|a: V, b: V, c: V| #![auto] lt(a, b) && lt(b, c) ==> lt(a, c)
}
pub open spec fn vmax<V: PartialOrd>(a: V, b: V) -> V { if lt(a, b) { b } else { a } }
pub open spec fn vmin<V: PartialOrd>(a: V, b: V) -> V { if lt(a, b) { a } else { b } }

// node p (m <= p <= 2m-2) is the max of its two children 2(p-m), 2(p-m)+1
pub open spec fn node_ok<V: PartialOrd>(vals: Seq<V>, m: int, p: int) -> bool {
    vals[p] == vmax(vals[2 * (p - m)], vals[2 * (p - m) + 1])
}

pub proof fn vmax_comm<V: PartialOrd>(a: V, b: V)
    requires total_order::<V>(),
    ensures vmax(a, b) == vmax(b, a),
{
    let ab = a.partial_cmp_spec(&b);
    let ba = b.partial_cmp_spec(&a);
    assert(ab is Some && ba is Some);
    if lt(a, b) {
        assert(ba == Some(Ordering::Greater));
    } else if lt(b, a) {
    } else {
        if ab == Some(Ordering::Greater) { assert(ba == Some(Ordering::Less)); }
        assert(ab == Some(Ordering::Equal));
    }
}

pub struct MaxValueTracker<V> {
    pub m: usize,
    pub last_index: usize,
    pub values: Vec<V>,
}

impl<V> MaxValueTracker<V>
where
    V: MaxValue + PartialOrd + Copy + std::fmt::Debug,
{
    pub open spec fn shape(&self) -> bool {
        &&& self.m >= 1
        &&& self.m <= usize::MAX / 4
        &&& self.last_index == 2 * self.m - 2
        &&& self.values@.len() == 2 * self.m - 1
    }
    pub open spec fn wf(&self) -> bool {
        &&& self.shape()
        &&& forall|p: int| self.m <= p <= self.last_index ==> #[trigger] node_ok(self.values@, self.m as int, p)
    }

    pub(crate) fn update(&mut self, k: usize, value: V)
        requires old(self).wf(), k < old(self).m, total_order::<V>(),
        ensures final(self).wf(),
            final(self).m == old(self).m,
            forall|j: int| 0 <= j < old(self).m && j != k ==> final(self).values@[j] == old(self).values@[j],
            final(self).values@[k as int] == vmin(value, old(self).values@[k as int]),
    {
        assert(k < self.m);
        let mut current_value = value;
        let mut current_k = k;
        let mut more = false;
        if current_value < self.values[current_k] {
            more = true;
        }

        while more
            invariant_except_break
                more ==> lt(current_value, self.values@[current_k as int]),
                // all internal nodes are consistent except possibly current_k itself (if internal)
                forall|p: int| self.m <= p <= self.last_index && !(more && p == current_k) ==> #[trigger] node_ok(self.values@, self.m as int, p),
                // ... whose children already have current_value as their max
                more && current_k >= self.m ==> current_value == vmax(self.values@[2 * (current_k - self.m)], self.values@[2 * (current_k - self.m) + 1]),
                forall|j: int| 0 <= j < self.m && j != k ==> self.values@[j] == old(self).values@[j],
                current_k < self.m ==> current_k == k && self.values@[k as int] == old(self).values@[k as int] && current_value == value,
                current_k >= self.m || !more ==> self.values@[k as int] == vmin(value, old(self).values@[k as int]),
            invariant
                total_order::<V>(),
                self.shape(), self.m == old(self).m,
                k < self.m,
                current_k <= self.last_index,
            ensures
                self.wf(),
                forall|j: int| 0 <= j < self.m && j != k ==> self.values@[j] == old(self).values@[j],
                self.values@[k as int] == vmin(value, old(self).values@[k as int]),
            decreases (if more { 1int } else { 0int }), self.last_index - current_k,
        {
            let ghost pre = self.values@;
            self.values[current_k] = current_value;
            let pidx = self.m + (current_k / 2);
            if pidx > self.last_index {
                assert(current_k == self.last_index);
                proof {
                    assert forall|p: int| self.m <= p <= self.last_index implies #[trigger] node_ok(self.values@, self.m as int, p) by {
                        if p != current_k { assert(node_ok(pre, self.m as int, p)); }
                    }
                }
                break;
            }
            let siblidx = current_k ^ 1;
            assert(siblidx == (if current_k % 2 == 0 { (current_k + 1) as usize } else { (current_k - 1) as usize })) by(bit_vector)
                requires siblidx == current_k ^ 1, current_k < 0x7fff_ffff_ffff_ffff;
            assert(2 * (pidx - self.m) == (if current_k % 2 == 0 { current_k as int } else { current_k - 1 }));
            assert(node_ok(pre, self.m as int, pidx as int));
            let a1 = self.values[siblidx] <= self.values[pidx]; assert(a1);
            let a2 = self.values[current_k] <= self.values[pidx]; assert(a2);
            if self.values[siblidx] >= self.values[pidx]
                && self.values[current_k] >= self.values[pidx]
            {
                break;
            }
            proof { vmax_comm(current_value, self.values@[siblidx as int]); }
            if current_value < self.values[siblidx] {
                current_value = self.values[siblidx];
            } else {
            }
            proof {
                // every node other than pidx keeps its children (only values[current_k] changed, whose parent is pidx)
                assert forall|p: int| self.m <= p <= self.last_index && p != pidx implies #[trigger] node_ok(self.values@, self.m as int, p) by {
                    if p != current_k { assert(node_ok(pre, self.m as int, p)); }
                }
            }
            current_k = pidx;
            if current_value >= self.values[current_k] {
                more = false;
            }
        }
    }

    pub fn get_max_value(&self) -> (r: V)
        requires self.wf(),
        ensures r == self.values@[self.last_index as int],
    {
        self.values[self.last_index]
    }
}
}
fn main(){}
