use vstd::prelude::*;
use vstd::std_specs::cmp::*;
use core::cmp::Ordering;
verus! {

pub assume_specification<T: Clone>[ <[T]>::fill ](s: &mut [T], value: T)
    ensures final(s)@.len() == old(s)@.len(),
            forall|i: int| 0 <= i < final(s)@.len() ==> final(s)@[i] == value;

pub trait MaxValue: Sized {
    spec fn max_spec() -> Self;
    fn get_max() -> (r: Self)
        ensures r == Self::max_spec();
}

// ---- order vocabulary over an arbitrary PartialOrd type
pub open spec fn lt<V: PartialOrd>(a: V, b: V) -> bool { a.partial_cmp_spec(&b) == Some(Ordering::Less) }
pub open spec fn le<V: PartialOrd>(a: V, b: V) -> bool { lt(a, b) || a.partial_cmp_spec(&b) == Some(Ordering::Equal) }
// hypotheses on V : strict total order in which Equal means identical
pub open spec fn total_order<V: PartialOrd>() -> bool {
    &&& V::obeys_partial_cmp_spec()
    &&& forall|a: V, b: V| #![auto] a.partial_cmp_spec(&b) is Some
    &&& forall|a: V, b: V| #![auto] (a.partial_cmp_spec(&b) == Some(Ordering::Equal)) <==> a == b
    &&& forall|a: V, b: V| #![auto] (a.partial_cmp_spec(&b) == Some(Ordering::Less)) <==> (b.partial_cmp_spec(&a) == Some(Ordering::Greater))
    &&& forall|a: V, b: V, c: V| #![auto] lt(a, b) && lt(b, c) ==> lt(a, c)
}

pub open spec fn vmax<V: PartialOrd>(a: V, b: V) -> V { if lt(a, b) { b } else { a } }

pub(crate) struct MaxValueTracker<V> {
    m: usize,
    last_index: usize,
    values: Vec<V>,
}

impl<V> MaxValueTracker<V>
where
    V: MaxValue + PartialOrd + Copy + std::fmt::Debug,
{
    pub closed spec fn root(&self) -> V { self.values@[self.last_index as int] }
    pub closed spec fn shape(&self) -> bool {
        &&& self.m >= 1
        &&& self.m <= usize::MAX / 4
        &&& self.last_index == 2 * self.m - 2
        &&& self.values@.len() == 2 * self.m - 1
    }
    // node p (m <= p <= 2m-2) is the max of its two children 2(p-m), 2(p-m)+1
    pub closed spec fn node_ok(&self, p: int) -> bool {
        self.values@[p] == vmax(self.values@[2 * (p - self.m)], self.values@[2 * (p - self.m) + 1])
    }
    pub closed spec fn wf(&self) -> bool {
        &&& self.shape()
        &&& forall|p: int| self.m <= p <= self.last_index ==> #[trigger] self.node_ok(p)
    }

    pub(crate) fn update(&mut self, k: usize, value: V)
        requires old(self).wf(), k < old(self).m, total_order::<V>(),
        ensures final(self).wf(),
            final(self).m == old(self).m,
            forall|j: int| 0 <= j < old(self).m && j != k ==> final(self).values@[j] == old(self).values@[j],
            final(self).values@[k as int] == (if lt(value, old(self).values@[k as int]) { value } else { old(self).values@[k as int] }),
    {
        assert(k < self.m);
        let mut current_value = value;
        let mut current_k = k;
        let mut more = false;
        if current_value < self.values[current_k] {
            more = true;
        }

        while more
            invariant_except_break
                more ==> lt(current_value, self.values@[current_k as int]),
                !more ==> self.wf(),
            invariant
                total_order::<V>(),
                self.shape(), self.m == old(self).m,
                current_k <= self.last_index,
                // every internal node is fine except, when work remains, the parent of current_k
                forall|p: int| self.m <= p <= self.last_index && !(more && p == self.m + current_k as int / 2) ==> #[trigger] self.node_ok(p),
                // the pending parent is the max of (old value at current_k, sibling)
                more && self.m + current_k / 2 <= self.last_index ==> self.node_ok(self.m + current_k as int / 2),
                forall|j: int| 0 <= j < self.m && j != k ==> self.values@[j] == old(self).values@[j],
                current_k < self.m ==> current_k == k,
                self.values@[k as int] == (if current_k == k && more { old(self).values@[k as int] } else if lt(value, old(self).values@[k as int]) { value } else { old(self).values@[k as int] }),
                current_k == k && more ==> current_value == value,
            ensures self.wf(),
            decreases (if more { 1int } else { 0int }), self.last_index - current_k,
        {
            self.values[current_k] = current_value;
            let pidx = self.m + (current_k / 2);
            if pidx > self.last_index {
                break;
            }
            let siblidx = current_k ^ 1;
            assert(siblidx == (if current_k % 2 == 0 { current_k + 1 } else { current_k - 1 }) as usize) by(bit_vector);
            let a1 = self.values[siblidx] <= self.values[pidx]; assert(a1);
            let a2 = self.values[current_k] <= self.values[pidx]; assert(a2);
            if self.values[siblidx] >= self.values[pidx]
                && self.values[current_k] >= self.values[pidx]
            {
                break;
            }
            if current_value < self.values[siblidx] {
                current_value = self.values[siblidx];
            } else {
            }
            current_k = pidx;
            if current_value >= self.values[current_k] {
                more = false;
            }
        }
    }

    pub fn get_max_value(&self) -> (r: V)
        requires self.wf(),
        ensures r == self.root(),
    {
        self.values[self.last_index]
    }
}
}
fn main(){}
