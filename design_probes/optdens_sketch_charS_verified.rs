use vstd::prelude::*;
verus! {

// ---------------- prelude stubs (assumed contracts on dependencies) ----------------
pub trait Hasher: Sized {}
pub trait Hash: Sized {}
#[verifier::external_body]
#[verifier::accept_recursive_types(H)]
pub struct BuildHasherDefault<H> { _p: core::marker::PhantomData<H> }
pub uninterp spec fn hash_spec<H, T>(x: T) -> u64;
impl<H: Hasher> BuildHasherDefault<H> {
    #[verifier::external_body]
    pub fn hash_one<T: Hash>(&self, x: T) -> (r: u64) ensures r == hash_spec::<H, T>(x) { unimplemented!() }
}
impl<T: Hash> Hash for &T {}

#[verifier::external_body]
pub struct Xoshiro256PlusPlus { _p: u8 }
pub uninterp spec fn xo_seed(s: u64) -> int;     // abstract generator state
impl Xoshiro256PlusPlus {
    pub uninterp spec fn st(&self) -> int;
    #[verifier::external_body]
    pub fn seed_from_u64(s: u64) -> (r: Self) ensures r.st() == xo_seed(s) { unimplemented!() }
}
#[verifier::external_body]
#[verifier::reject_recursive_types(T)]
pub struct Uniform<T> { _p: core::marker::PhantomData<T> }
pub uninterp spec fn u01_draw(st: int) -> (f64, int);
pub uninterp spec fn urange_draw(st: int, lo: usize, hi: usize) -> (usize, int);
impl Uniform<f64> {
    #[verifier::external_body]
    pub fn new(lo: f64, hi: f64) -> (r: Result<Self, ()>) ensures r is Ok { unimplemented!() }
    #[verifier::external_body]
    pub fn sample(&self, rng: &mut Xoshiro256PlusPlus) -> (r: f64)
        ensures (r, final(rng).st()) == u01_draw(old(rng).st()) { unimplemented!() }
}
impl Uniform<usize> {
    pub uninterp spec fn lo(&self) -> usize;
    pub uninterp spec fn hi(&self) -> usize;
    #[verifier::external_body]
    pub fn new(lo: usize, hi: usize) -> (r: Result<Self, ()>)
        ensures lo < hi ==> r is Ok && r->Ok_0.lo() == lo && r->Ok_0.hi() == hi { unimplemented!() }
    #[verifier::external_body]
    pub fn sample(&self, rng: &mut Xoshiro256PlusPlus) -> (r: usize)
        ensures (r, final(rng).st()) == urange_draw(old(rng).st(), self.lo(), self.hi()), self.lo() <= r < self.hi() { unimplemented!() }
}
pub axiom fn urange_in(st: int, lo: usize, hi: usize) requires lo < hi ensures lo <= urange_draw(st, lo, hi).0 < hi;
pub uninterp spec fn large_spec() -> f64;      // F::from(u32::MAX)
pub axiom fn u01_le_large(st: int) ensures fle(u01_draw(st).0, large_spec());
pub fn zero_f64() -> f64 { 0.0 }
pub fn one_f64() -> f64 { 1.0 }

// float order: only what the sketch needs (IEEE fact F2: total preorder on non-NaN)
pub uninterp spec fn fle(a: f64, b: f64) -> bool;
#[verifier::external_body]
pub fn f64_le(a: f64, b: f64) -> (r: bool) ensures r == fle(a, b) { a <= b }
pub axiom fn fle_total(a: f64, b: f64) ensures fle(a, b) || fle(b, a);
pub axiom fn fle_trans(a: f64, b: f64, c: f64) requires fle(a, b), fle(b, c) ensures fle(a, c);
pub axiom fn fle_antisym(a: f64, b: f64) requires fle(a, b), fle(b, a) ensures a == b;

// ---------------- point of an item: (r, bin) from the generator seeded by its hash ----------------
pub open spec fn pt_r(h: u64) -> f64 { u01_draw(xo_seed(h)).0 }
pub open spec fn pt_k(h: u64, m: usize) -> usize { urange_draw(u01_draw(xo_seed(h)).1, 0, m).0 }

pub struct OptDensMinHash<D, H> {
    pub hsketch: Vec<f64>,
    pub values: Vec<u64>,
    pub init: Vec<bool>,
    pub nb_empty: i64,
    pub b_hasher: BuildHasherDefault<H>,
    pub t_marker: core::marker::PhantomData<D>,
}

pub open spec fn count_false(s: Seq<bool>) -> int
    decreases s.len()
{
    if s.len() == 0 { 0 } else { count_false(s.drop_last()) + if s.last() { 0int } else { 1int } }
}

pub proof fn lemma_count_false_set(s: Seq<bool>, k: int)
    requires 0 <= k < s.len(),
    ensures 0 <= count_false(s) <= s.len(),
        !s[k] ==> count_false(s.update(k, true)) == count_false(s) - 1 && count_false(s) >= 1,
    decreases s.len(),
{
    if s.len() > 0 {
        if k == s.len() - 1 {
            assert(s.update(k, true).drop_last() =~= s.drop_last());
            lemma_count_false_bounds(s.drop_last());
        } else {
            assert(s.update(k, true).drop_last() =~= s.drop_last().update(k, true));
            lemma_count_false_set(s.drop_last(), k);
        }
    }
}
pub proof fn lemma_count_false_bounds(s: Seq<bool>)
    ensures 0 <= count_false(s) <= s.len(),
    decreases s.len(),
{
    if s.len() > 0 { lemma_count_false_bounds(s.drop_last()); }
}

impl<D: Hash + Copy, H: Hasher> OptDensMinHash<D, H> {
    pub open spec fn shape(&self) -> bool {
        &&& self.hsketch@.len() == self.values@.len() == self.init@.len()
        &&& self.hsketch@.len() >= 1
        &&& self.hsketch@.len() < 0x7fff_ffff
        &&& self.nb_empty == count_false(self.init@)
        &&& forall|k: int| 0 <= k < self.init@.len() && !#[trigger] self.init@[k] ==> self.hsketch@[k] == large_spec()
    }
    // characteristic invariant: S = set of item hashes streamed so far
    pub open spec fn char(&self, S: Set<u64>) -> bool {
        let m = self.hsketch@.len() as usize;
        &&& self.shape()
        // (A) every streamed item is dominated by its bin
        &&& forall|h: u64| #[trigger] S.contains(h) ==> self.init@[pt_k(h, m) as int] && fle(self.hsketch@[pt_k(h, m) as int], pt_r(h))
        // (B) every populated bin holds the point of a streamed item
        &&& forall|k: int| 0 <= k < m && #[trigger] self.init@[k] ==> S.contains(self.values@[k]) && pt_k(self.values@[k], m) == k && self.hsketch@[k] == pt_r(self.values@[k])
    }

    pub fn sketch(&mut self, to_sketch: &D)
        requires old(self).shape(),
        ensures final(self).shape(), final(self).hsketch@.len() == old(self).hsketch@.len(),
            forall|S: Set<u64>| old(self).char(S) ==> final(self).char(S.insert(hash_spec::<H, &&D>(&to_sketch))),
    {
        proof { lemma_count_false_bounds(self.init@); }
        let m = self.hsketch.len();
        let unit_range = Uniform::<f64>::new(zero_f64(), one_f64()).unwrap();
        // hash! even if with NoHashHasher. In this case T must be u64 or u32
        let hval1: u64 = self.b_hasher.hash_one(&to_sketch);
        let mut rand_generator = Xoshiro256PlusPlus::seed_from_u64(hval1);
        let r: f64 = unit_range.sample(&mut rand_generator);
        let k: usize = Uniform::<usize>::new(0, m)
            .unwrap()
            .sample(&mut rand_generator); // m beccause upper bound of range is excluded
        if f64_le(r, self.hsketch[k]) {
            self.hsketch[k] = r;
            self.values[k] = hval1;
            if !self.init[k] {
                self.init[k] = true;
                self.nb_empty -= 1;
            }
        }
        proof {
            lemma_count_false_set(old(self).init@, k as int);
            assert forall|S: Set<u64>| old(self).char(S) implies self.char(S.insert(hval1)) by {
                let S2 = S.insert(hval1);
                assert(pt_k(hval1, m) == k && pt_r(hval1) == r);
                assert forall|h: u64| #[trigger] S2.contains(h) implies self.init@[pt_k(h, m) as int] && fle(self.hsketch@[pt_k(h, m) as int], pt_r(h)) by {
                    urange_in(u01_draw(xo_seed(h)).1, 0, m);
                    fle_total(r, old(self).hsketch@[k as int]);
                    fle_total(r, r);
                    u01_le_large(xo_seed(hval1));
                    if h != hval1 {
                        assert(S.contains(h));
                        if pt_k(h, m) == k && fle(r, old(self).hsketch@[k as int]) {
                            fle_trans(r, old(self).hsketch@[k as int], pt_r(h));
                        }
                    }
                }
                assert forall|kk: int| 0 <= kk < m && #[trigger] self.init@[kk] implies S2.contains(self.values@[kk]) && pt_k(self.values@[kk], m) == kk && self.hsketch@[kk] == pt_r(self.values@[kk]) by {
                    if kk != k { assert(old(self).init@[kk]); }
                    else if !fle(r, old(self).hsketch@[k as int]) { assert(old(self).init@[kk]); }
                }
            }
        }
    }
}
}
fn main(){}
