// Kani unit `exp01` (C16): the real ExpRestricted01::sample with a generator whose every output is unconstrained.
// Child module of src/exp01.rs in the scratch copy, so that the private fields can be filled with symbolic values
// satisfying the type invariant that new() establishes (c1 >= 0 finite, others finite, lambda > 0 finite).
use super::*;
use rand::RngCore;

struct AnyRng;
impl RngCore for AnyRng {
    fn next_u32(&mut self) -> u32 { kani::any() }
    fn next_u64(&mut self) -> u64 { kani::any() }
    fn fill_bytes(&mut self, dst: &mut [u8]) { for b in dst.iter_mut() { *b = kani::any(); } }
}
fn exp_m1_any(_x: f64) -> f64 { kani::any() }   // sound over-approximation of the transcendental function

fn any_sampler() -> ExpRestricted01 {
    let lambda: f64 = kani::any();
    let c1: f64 = kani::any();
    let c2: f64 = kani::any();
    let c3: f64 = kani::any();
    kani::assume(lambda.is_finite() && lambda > 0.0);
    kani::assume(c1.is_finite() && c1 >= 0.0);
    kani::assume(c2.is_finite() && c3.is_finite());
    ExpRestricted01 { lambda, c1, c2, c3, unit_range: Uniform::<f64>::new(0., 1.).unwrap() }
}

// bounded: the first try and two rounds of the rejection loop
#[kani::proof]
#[kani::unwind(3)]
#[kani::stub(f64::exp_m1, exp_m1_any)]
fn sample_in_unit_interval_3_rounds() {
    let e = any_sampler();
    let mut rng = AnyRng;
    let x = e.sample(&mut rng);
    assert!(x >= 0.0 && x < 1.0);
}
