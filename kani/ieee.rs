// Kani unit `ieee`: the named IEEE-754 facts that the Verus units take as axioms.
// Every harness is loop-free over the full domain of its arguments: when CBMC terminates it is a complete proof.
// (harness name = axiom name in vx/prelude or in the unit template)

#[kani::proof]
fn ieee_fa_scaled_unit() {
    // a finite and >= 0, 0 <= u < 1, a*u < 1  ==>  0 <= a*u < 1
    let a: f64 = kani::any();
    let u: f64 = kani::any();
    kani::assume(a.is_finite() && a >= 0.0 && u >= 0.0 && u < 1.0);
    let p = a * u;
    if p < 1.0 { assert!(p >= 0.0 && p < 1.0); }
}
#[kani::proof]
fn ieee_fb_half() {
    // 0 <= u < 1  ==>  0 <= 0.5*u < 0.5
    let u: f64 = kani::any();
    kani::assume(u >= 0.0 && u < 1.0);
    let y = 0.5 * u;
    assert!(y >= 0.0 && y < 0.5);
}
#[kani::proof]
fn ieee_fc_reflect() {
    // 0 <= x < 1, 0 <= y < 0.5, y > 1 - x  ==>  0 <= 1 - x < 1
    let x: f64 = kani::any();
    let y: f64 = kani::any();
    kani::assume(x >= 0.0 && x < 1.0 && y >= 0.0 && y < 0.5);
    if y > 1.0 - x { let z = 1.0 - x; assert!(z >= 0.0 && z < 1.0); }
}
#[kani::proof]
fn ieee_f2_total_order_non_nan() {
    // on non-NaN values <, ==, > are a trichotomy and < is transitive
    let a: f64 = kani::any();
    let b: f64 = kani::any();
    let c: f64 = kani::any();
    kani::assume(!a.is_nan() && !b.is_nan() && !c.is_nan());
    assert!((a < b) as u8 + (a == b) as u8 + (a > b) as u8 == 1);
    assert!((a < b) == (b > a));
    if a < b && b < c { assert!(a < c); }
    assert!((a <= b) == !(b < a));
}
#[kani::proof]
fn ieee_f1_scale_in_range_4096() {
    // floor(x*n) < n for 0 <= x < 1, 1 <= n <= 4096   (the axiom is stated for n <= 2^53: assumed above 4096)
    let x: f64 = kani::any();
    let n: usize = kani::any();
    kani::assume(x >= 0.0 && x < 1.0 && n >= 1 && n <= 4096);
    assert!(((x * n as f64) as usize) < n);
}
#[kani::proof]
fn ieee_f1_scale_in_range_2p27() {
    // the same for 1 <= n <= 2^27 (covers every size ProbOrdMinHash2 accepts); about 20 minutes of CBMC time: thorough tier only
    let x: f64 = kani::any();
    let n: usize = kani::any();
    kani::assume(x >= 0.0 && x < 1.0 && n >= 1 && n <= (1usize << 27));
    assert!(((x * n as f64) as usize) < n);
}
#[kani::proof]
fn ieee_mul_one() {
    // x * 1 == x for every non-NaN x (used by ProbMinHash3a, which compares winv itself where ProbMinHash3 compares winv * 1)
    let a: f64 = kani::any();
    kani::assume(!a.is_nan());
    assert!(a * (1i32 as f64) == a);
    assert!(!(a * (1i32 as f64) < a));
}
#[kani::proof]
fn ieee_f4_add_nonneg() {
    // x + y*g >= x for finite x, y, g >= 0 with y*g finite (the step of the additive point streams of ProbMinHash2 / ProbOrdMinHash2)
    let x: f64 = kani::any();
    let y: f64 = kani::any();
    let g: f64 = kani::any();
    kani::assume(x >= 0.0 && y >= 0.0 && g >= 0.0 && x.is_finite() && y.is_finite() && g.is_finite());
    let p = y * g;
    kani::assume(p.is_finite());
    assert!(x + p >= x);
}
#[kani::proof]
fn ieee_f5_ratio_u32() {
    // 0 <= c <= n, 1 <= n < 2^32: 0 <= c/n <= 1 and n/n == 1 (f64 quotient of exactly converted integers); about 3 minutes: thorough tier
    let c: u32 = kani::any();
    let n: u32 = kani::any();
    kani::assume(n >= 1 && c <= n);
    let q = c as f64 / n as f64;
    assert!(q >= 0.0 && q <= 1.0);
    if c == n { assert!(q == 1.0); }
}

// ---- facts used at the optimiser boundary of MleJaccard::get_mle (unit mle) ----
#[kani::proof]
fn ieee_ratio_nonneg() {
    // c/n is never below 0 for unsigned c and n >= 1
    let c: u32 = kani::any();
    let n: u64 = kani::any();
    kani::assume(n >= 1);
    let q = c as f64 / n as f64;
    assert!(!(q < 0.0));
}
#[kani::proof]
fn ieee_min_facts() {
    let a: f64 = kani::any();
    let b: f64 = kani::any();
    let lo: f64 = kani::any();
    let m = a.min(b);
    assert!(!(b < m));
    if !(a < lo) && !(b < lo) { assert!(!(m < lo)); }
}
#[kani::proof]
fn ieee_cmp_flip() {
    let a: f64 = kani::any();
    let b: f64 = kani::any();
    assert!((a.partial_cmp(&b) == Some(core::cmp::Ordering::Less)) == (b.partial_cmp(&a) == Some(core::cmp::Ordering::Greater)));
}

// F6 (unit setsketcher): for 0 <= n <= 2^53 the conversion to f64 is exact and floor gives n back
#[kani::proof]
fn ieee_f6_floor_of_int() {
    let n: u64 = kani::any();
    kani::assume(n <= (1u64 << 53));
    let x = n as f64;
    assert!(x.floor() as i64 == n as i64);
    if n == 0 { assert!(x == 0.0); }
}

// ---- scaling by a power of two t = 2^k (C02, sub-claim "multiplying all weights by a power of two"): for operands and results in the
// normal range (strictly above the smallest normal number, so that no product was rounded) multiplication by t is exact, hence
// order preserving and distributive over +.  These are the facts behind the hypotheses scale_order / p3_scaled of c02_p3_scaling. ----
fn vx_pow2(e: u16) -> f64 { f64::from_bits((e as u64) << 52) }
fn vx_nz(x: f64) -> bool { x.is_normal() && (x > f64::MIN_POSITIVE || x < -f64::MIN_POSITIVE) }
#[kani::proof]
fn ieee_scale_order() {
    let a: f64 = kani::any(); let b: f64 = kani::any(); let e: u16 = kani::any();
    kani::assume(e >= 1 && e <= 2046);
    let t = vx_pow2(e);
    let at = a * t; let bt = b * t;
    kani::assume(vx_nz(a) && vx_nz(b) && vx_nz(at) && vx_nz(bt));
    assert!((at < bt) == (a < b));
}
#[kani::proof]
fn ieee_scale_add() {
    let a: f64 = kani::any(); let b: f64 = kani::any(); let e: u16 = kani::any();
    kani::assume(e >= 1 && e <= 2046);
    let t = vx_pow2(e);
    kani::assume(vx_nz(a) && vx_nz(b) && a > 0.0 && b > 0.0 && vx_nz(a * t) && vx_nz(b * t) && vx_nz(a + b));
    let l = a * t + b * t; let r = (a + b) * t;
    kani::assume(vx_nz(l) && vx_nz(r));
    assert!(l == r);
}
