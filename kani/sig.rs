// Kani unit `sig` (C18): every impl of probminhasher::sig::Sig, called on the REAL code.
// Each harness states the contract of one impl:  post(get_sig(x)) for every x (integers: full domain, loop-free =>
// complete proof) or for every vector/string of symbolic content and symbolic length <= 4 (bounded, labelled so).
// Memory safety (pointer validity, bounds, dealloc, double free) is checked by CBMC along the whole harness,
// including the drop of the argument and of the returned Vec<u8>.
use crate::probminhasher::sig::Sig;

#[kani::proof]
fn sig_u8() {
    let x: u8 = kani::any();
    let r = x.get_sig();
    assert!(r.len() == 1 && r[0] == x);
}
#[kani::proof]
fn sig_u16() {
    let x: u16 = kani::any();
    let r = x.get_sig();
    assert!(r.len() == 2);
    assert!(u16::from_ne_bytes([r[0], r[1]]) == x);
}
#[kani::proof]
fn sig_u32() {
    let x: u32 = kani::any();
    let r = x.get_sig();
    assert!(r.len() == 4);
    assert!(u32::from_ne_bytes([r[0], r[1], r[2], r[3]]) == x);
}
#[kani::proof]
fn sig_u64() {
    let x: u64 = kani::any();
    let r = x.get_sig();
    assert!(r.len() == 8);
    assert!(u64::from_ne_bytes([r[0], r[1], r[2], r[3], r[4], r[5], r[6], r[7]]) == x);
}
#[kani::proof]
fn sig_i16() {
    let x: i16 = kani::any();
    let r = x.get_sig();
    assert!(r.len() == 2);
    assert!(i16::from_ne_bytes([r[0], r[1]]) == x);
}
#[kani::proof]
fn sig_i32() {
    let x: i32 = kani::any();
    let r = x.get_sig();
    assert!(r.len() == 4);
    assert!(i32::from_ne_bytes([r[0], r[1], r[2], r[3]]) == x);
}

const N: usize = 4;

// vectors / strings: symbolic content, symbolic length <= N, one symbolic position checked (= every position)
#[kani::proof]
#[kani::unwind(6)]
fn sig_vec_u8() {
    let arr: [u8; N] = kani::any();
    let len: usize = kani::any();
    kani::assume(len <= N);
    let v: Vec<u8> = arr[..len].to_vec();
    let r = v.get_sig();
    assert!(r.len() == len);
    if len > 0 { let i: usize = kani::any(); kani::assume(i < len); assert!(r[i] == v[i]); }
}
#[kani::proof]
#[kani::unwind(6)]
fn sig_vec_u16() {
    let arr: [u16; N] = kani::any();
    let len: usize = kani::any();
    kani::assume(len <= N);
    let v: Vec<u16> = arr[..len].to_vec();
    let r = v.get_sig();
    assert!(r.len() == 2 * len);
    if len > 0 { let i: usize = kani::any(); kani::assume(i < len); assert!(u16::from_ne_bytes([r[2 * i], r[2 * i + 1]]) == v[i]); }
}
// the same with a vector whose capacity exceeds its length (truncated from a longer one)
#[kani::proof]
#[kani::unwind(6)]
fn sig_vec_u16_spare_capacity() {
    let arr: [u16; N] = kani::any();
    let len: usize = kani::any();
    kani::assume(len <= N);
    let mut v: Vec<u16> = arr.to_vec();
    v.truncate(len);
    let r = v.get_sig();
    assert!(r.len() == 2 * len);
    if len > 0 { let i: usize = kani::any(); kani::assume(i < len); assert!(u16::from_ne_bytes([r[2 * i], r[2 * i + 1]]) == v[i]); }
}
#[kani::proof]
#[kani::unwind(6)]
fn sig_vec_u32_spare_capacity() {
    let arr: [u32; N] = kani::any();
    let len: usize = kani::any();
    kani::assume(len <= N);
    let mut v: Vec<u32> = arr.to_vec();
    v.truncate(len);
    let r = v.get_sig();
    assert!(r.len() == 4 * len);
    if len > 0 {
        let i: usize = kani::any(); kani::assume(i < len);
        assert!(u32::from_ne_bytes([r[4 * i], r[4 * i + 1], r[4 * i + 2], r[4 * i + 3]]) == v[i]);
    }
}
#[kani::proof]
#[kani::unwind(6)]
fn sig_vec_u32() {
    let arr: [u32; N] = kani::any();
    let len: usize = kani::any();
    kani::assume(len <= N);
    let v: Vec<u32> = arr[..len].to_vec();
    let r = v.get_sig();
    assert!(r.len() == 4 * len);
    if len > 0 {
        let i: usize = kani::any(); kani::assume(i < len);
        assert!(u32::from_ne_bytes([r[4 * i], r[4 * i + 1], r[4 * i + 2], r[4 * i + 3]]) == v[i]);
    }
}
#[kani::proof]
#[kani::unwind(6)]
fn sig_string() {
    // ASCII content (every ASCII byte string is valid UTF-8); non-ASCII UTF-8 takes the same path (as_ref + to_vec)
    let arr: [u8; N] = kani::any();
    kani::assume(arr[0] < 128 && arr[1] < 128 && arr[2] < 128 && arr[3] < 128);
    let len: usize = kani::any();
    kani::assume(len <= N);
    let s = unsafe { String::from_utf8_unchecked(arr[..len].to_vec()) };
    let r = s.get_sig();
    assert!(r.len() == len);
    if len > 0 { let i: usize = kani::any(); kani::assume(i < len); assert!(r[i] == arr[i]); }
}
