// Witness search / replay for C02 on the real ProbMinHash variants.
use fnv::{FnvBuildHasher, FnvHasher};
use indexmap::IndexMap;
use std::collections::HashMap;
use std::io::Write;
use crate::probminhasher::{ProbMinHash2, ProbMinHash3, ProbMinHash3a, ProbMinHash3aSha};

fn out(found: bool, input: serde_json::Value, observed: String, expected: String, cases: u64) {
    let p = std::env::var("VERIF_REPLAY_OUT").unwrap();
    let v = serde_json::json!({"module_file": file!(), "found": found, "input": input, "observed": observed, "expected": expected, "cases": cases});
    std::fs::File::create(p).unwrap().write_all(v.to_string().as_bytes()).unwrap();
}
fn progress(input: &serde_json::Value) {
    if let Ok(p) = std::env::var("VERIF_REPLAY_OUT") {
        let _ = std::fs::write(p.replace("verif_replay_out.json", "verif_replay_progress.json"), serde_json::json!({"input": input}).to_string());
    }
}
type Ws = Vec<(u64, f64)>;
fn p3(m: usize, ws: &Ws) -> Vec<u64> { let mut s = ProbMinHash3::<u64, FnvHasher>::new(m, u64::MAX); for (d, w) in ws { s.hash_item(*d, w); } s.get_signature().clone() }
fn p2(m: usize, ws: &Ws) -> Vec<u64> { let mut s = ProbMinHash2::<u64, FnvHasher>::new(m, u64::MAX); for (d, w) in ws { s.hash_item(*d, *w); } s.get_signature().clone() }
fn p3_idx(m: usize, ws: &Ws) -> Vec<u64> { let mut im: IndexMap<u64, f64, FnvBuildHasher> = IndexMap::default(); for (d, w) in ws { im.insert(*d, *w); } let mut s = ProbMinHash3::<u64, FnvHasher>::new(m, u64::MAX); s.hash_weigthed_idxmap(&im); s.get_signature().clone() }
fn p3_hm(m: usize, ws: &Ws) -> Vec<u64> { let mut hm: HashMap<u64, f64> = HashMap::new(); for (d, w) in ws { hm.insert(*d, *w); } let mut s = ProbMinHash3::<u64, FnvHasher>::new(m, u64::MAX); s.hash_weigthed_hashmap(&hm); s.get_signature().clone() }
fn p3a_idx(m: usize, ws: &Ws) -> Vec<u64> { let mut im: IndexMap<u64, f64, FnvBuildHasher> = IndexMap::default(); for (d, w) in ws { im.insert(*d, *w); } let mut s = ProbMinHash3a::<u64, FnvHasher>::new(m, u64::MAX); s.hash_weigthed_idxmap(&im); s.get_signature().clone() }
fn p3a_hm(m: usize, ws: &Ws) -> Vec<u64> { let mut hm: HashMap<u64, f64> = HashMap::new(); for (d, w) in ws { hm.insert(*d, *w); } let mut s = ProbMinHash3a::<u64, FnvHasher>::new(m, u64::MAX); s.hash_weigthed_hashmap(&hm); s.get_signature().clone() }
fn p3a_two_batches(m: usize, ws: &Ws) -> Vec<u64> {
    let mut s = ProbMinHash3a::<u64, FnvHasher>::new(m, u64::MAX);
    let h = ws.len() / 2;
    for part in [&ws[..h], &ws[h..]] { let mut im: IndexMap<u64, f64, FnvBuildHasher> = IndexMap::default(); for (d, w) in part { im.insert(*d, *w); } s.hash_weigthed_idxmap(&im); }
    s.get_signature().clone()
}
fn sha(m: usize, ws: &Ws, rev: bool) -> Vec<String> {
    let mut im: IndexMap<String, f64, FnvBuildHasher> = IndexMap::default();
    let it: Vec<&(u64, f64)> = if rev { ws.iter().rev().collect() } else { ws.iter().collect() };
    for (d, w) in it { im.insert(format!("obj-{d}"), *w); }
    let mut s = ProbMinHash3aSha::<String>::new(m, String::new());
    s.hash_weigthed_idxmap(&im);
    s.get_signature().clone()
}
fn case(m: usize, ws: &Ws) -> Option<(String, String)> {
    let mut rev = ws.clone(); rev.reverse();
    let base3 = p3(m, ws);
    let chk = |name: &str, got: Vec<u64>, want: &Vec<u64>| -> Option<(String, String)> {
        if &got != want { let k = (0..m).find(|&i| got[i] != want[i]).unwrap(); Some((format!("{name}: position {k} holds {} instead of {}", got[k], want[k]), "identical signatures".into())) } else { None }
    };
    for (name, got) in [("ProbMinHash3 reversed insertion order", p3(m, &rev)), ("ProbMinHash3 via IndexMap", p3_idx(m, ws)), ("ProbMinHash3 via HashMap", p3_hm(m, ws)),
                        ("ProbMinHash3a via IndexMap (3 == 3a)", p3a_idx(m, ws)), ("ProbMinHash3a via HashMap", p3a_hm(m, ws)), ("ProbMinHash3a reversed", p3a_idx(m, &rev)),
                        ("ProbMinHash3a in two batches", p3a_two_batches(m, ws))] {
        if let Some(d) = chk(name, got, &base3) { return Some(d); }
    }
    let mut twice = ws.clone(); twice.extend_from_slice(&ws[..ws.len() / 2 + 1]);
    if let Some(d) = chk("ProbMinHash3 with pairs inserted again", p3(m, &twice), &base3) { return Some(d); }
    let base2 = p2(m, ws);
    if let Some(d) = chk("ProbMinHash2 reversed insertion order", p2(m, &rev), &base2) { return Some(d); }
    // more insertion orders (rotations and seeded shuffles): a stale-state slip shows only for a few percent of the orders
    if ws.len() >= 3 && ws.len() <= 200 {
        let mut st = 0x9E37_79B9_7F4A_7C15u64 ^ (ws.len() as u64) ^ ((m as u64) << 20);
        for t in 0..40 {
            let mut o = ws.clone();
            if t < 8 { o.rotate_left((t + 1) % ws.len()); } else { for i in (1..o.len()).rev() { st ^= st << 13; st ^= st >> 7; st ^= st << 17; let j = (st % (i as u64 + 1)) as usize; o.swap(i, j); } }
            if let Some(d) = chk(&format!("ProbMinHash2 insertion order #{t} (rotation/shuffle)"), p2(m, &o), &base2) { return Some(d); }
            if let Some(d) = chk(&format!("ProbMinHash3 insertion order #{t} (rotation/shuffle)"), p3(m, &o), &base3) { return Some(d); }
        }
    }
    if let Some(d) = chk("ProbMinHash2 with pairs inserted again", p2(m, &twice), &base2) { return Some(d); }
    if sha(m, ws, false) != sha(m, ws, true) { return Some(("ProbMinHash3aSha: reversed insertion order gives a different signature".into(), "identical".into())); }
    // scaling all weights by a power of two
    for k in [-3i32, 1, 10] {
        let sc: Ws = ws.iter().map(|(d, w)| (*d, *w * 2f64.powi(k))).collect();
        if let Some(d) = chk(&format!("ProbMinHash3 with all weights scaled by 2^{k}"), p3(m, &sc), &base3) { return Some(d); }
        if let Some(d) = chk(&format!("ProbMinHash2 with all weights scaled by 2^{k}"), p2(m, &sc), &base2) { return Some(d); }
    }
    // membership and union composition
    for (name, sig) in [("ProbMinHash3", &base3), ("ProbMinHash2", &base2)] {
        for (i, v) in sig.iter().enumerate() { if !ws.iter().any(|(d, _)| d == v) { return Some((format!("{name}: position {i} holds {v}, which is not an item of the set"), "an item of the set".into())); } }
    }
    let h = ws.len() / 2;
    let (a, b): (Ws, Ws) = (ws[..h + 1].to_vec(), ws[h..].to_vec());   // overlap in one item with the same weight
    if !a.is_empty() && !b.is_empty() {
        let (sa, sb) = (p3(m, &a), p3(m, &b));
        for i in 0..m { if base3[i] != sa[i] && base3[i] != sb[i] { return Some((format!("ProbMinHash3: position {i} of the union's signature ({}) equals neither part's ({}, {})", base3[i], sa[i], sb[i]), "one of the two".into())); } }
    }
    None
}
#[test]
fn verif_replay_c02() {
    let mode = std::env::var("VERIF_REPLAY_MODE").unwrap_or_default();
    if mode.is_empty() { return; }
    let inp: serde_json::Value = serde_json::from_str(&std::fs::read_to_string(std::env::var("VERIF_REPLAY_IN").unwrap()).unwrap()).unwrap();
    let tows = |v: &serde_json::Value| -> Ws { v.as_array().unwrap().iter().map(|p| (p[0].as_u64().unwrap(), p[1].as_f64().unwrap())).collect() };
    if mode == "replay" {
        let w = &inp["input"];
        progress(w);
        match case(w["m"].as_u64().unwrap() as usize, &tows(&w["weighted_set"])) {
            Some((o, e)) => out(true, w.clone(), o, e, 1),
            None => out(false, w.clone(), "identical".into(), "".into(), 1),
        }
        return;
    }
    let seed: u64 = std::env::var("VERIF_SEED").ok().and_then(|s| s.parse().ok()).unwrap_or(0);
    let thorough = std::env::var("VERIF_TIER").map(|t| t == "thorough").unwrap_or(false);
    let mut s = seed ^ 0x1234_5678_9abc_def1;
    let mut rnd = move || { s ^= s << 13; s ^= s >> 7; s ^= s << 17; s };
    let mut cases = 0u64;
    let sizes: &[usize] = if thorough { &[2, 3, 5, 16, 64, 200] } else { &[2, 5, 64] };
    for &m in sizes {
        for n in [1usize, 2, 3, 10, 100, 1000] {
            if !thorough && n > 100 { continue; }
            for style in 0..8 {
                let ws: Ws = (0..n as u64).map(|i| { let d = (i + 1) * 6_364_136_223 + rnd() % 7;
                    let w = match style { 0 => 1.0, 1 => 1.0 + (rnd() % 1000) as f64 / 8.0, 2 => if i % 3 == 0 { 1e-6 } else { 1e6 },
                        4 => 1e-20 * (1 + i % 7) as f64, 5 => 0.5e-16 * (i + 1) as f64, 6 => 1e290 * (1 + i % 5) as f64, 7 => f64::MIN_POSITIVE * 2f64.powi(200) * (1 + i % 3) as f64, _ => (1u64 << (rnd() % 20)) as f64 };
                    (d, w) }).collect();
                let mut seen = std::collections::HashSet::new();
                let ws: Ws = ws.into_iter().filter(|(d, _)| seen.insert(*d)).collect();
                cases += 1;
                progress(&serde_json::json!({"m": m, "weighted_set": ws.iter().map(|(d, w)| serde_json::json!([d, w])).collect::<Vec<_>>()}));
                if let Some((o, e)) = case(m, &ws) { out(true, serde_json::json!({"m": m, "weighted_set": ws.iter().map(|(d, w)| serde_json::json!([d, w])).collect::<Vec<_>>()}), o, e, cases); return; }
            }
        }
    }
    out(false, serde_json::Value::Null, "no disagreement".into(), "".into(), cases);
}
