// Witness search / replay for C04 on the real unweighted sketchers: reordering, repetition and chunking of the stream.
use fnv::FnvHasher;
use std::hash::{BuildHasher, BuildHasherDefault};
use std::io::Write;

fn out(found: bool, input: serde_json::Value, observed: String, expected: String, cases: u64) {
    let p = std::env::var("VERIF_REPLAY_OUT").unwrap();
    let v = serde_json::json!({"module_file": file!(), "found": found, "input": input, "observed": observed, "expected": expected, "cases": cases});
    std::fs::File::create(p).unwrap().write_all(v.to_string().as_bytes()).unwrap();
}
fn progress(input: &serde_json::Value) {
    if let Ok(p) = std::env::var("VERIF_REPLAY_OUT") {
        let _ = std::fs::write(p.replace("verif_replay_out.json", "verif_replay_progress.json"), serde_json::json!({"input": input}).to_string());
    }
}
fn bh() -> BuildHasherDefault<FnvHasher> { BuildHasherDefault::<FnvHasher>::default() }

// streams: list of chunks; each sketcher is fed chunk by chunk (slice call per chunk where a slice entry point exists)
fn sketch(kind: &str, m: usize, chunks: &[Vec<u64>]) -> Vec<u64> {
    match kind {
        "superminhash" => {
            let mut s = crate::superminhasher::SuperMinHash::<f64, u64, FnvHasher>::new(m, bh());
            for c in chunks { if c.len() > 1 { s.sketch_slice(c).unwrap(); } else { for x in c { s.sketch(x).unwrap(); } } }
            s.get_hsketch().iter().map(|x| x.to_bits()).collect()
        }
        "superminhash2" => {
            let mut s = crate::superminhasher2::SuperMinHash2::<u64, u64, FnvHasher>::new(m, bh());
            for c in chunks { if c.len() > 1 { s.sketch_slice(c).unwrap(); } else { for x in c { s.sketch(x).unwrap(); } } }
            s.get_hsketch().clone()
        }
        "setsketch" => {
            let mut p = crate::setsketcher::SetSketchParams::default(); p.set_m(m);
            let mut s = crate::setsketcher::SetSketcher::<u16, u64, FnvHasher>::new(p, bh());
            for c in chunks { if c.len() > 1 { s.sketch_slice(c).unwrap(); } else { for x in c { s.sketch(x).unwrap(); } } }
            s.get_signature().iter().map(|&x| x as u64).collect()
        }
        // coarse registers (large b) and few of them: the lower bound of the registers becomes active after a few dozen items,
        // so the pruning of SetSketch::sketch is exercised
        "setsketch-b1.2" | "setsketch-b1.5" => {
            let b = if kind == "setsketch-b1.2" { 1.2 } else { 1.5 };
            let p = crate::setsketcher::SetSketchParams::new(b, m as u64, 20., 62);
            let mut s = crate::setsketcher::SetSketcher::<u16, u64, FnvHasher>::new(p, bh());
            for c in chunks { if c.len() > 1 { s.sketch_slice(c).unwrap(); } else { for x in c { s.sketch(x).unwrap(); } } }
            s.get_signature().iter().map(|&x| x as u64).collect()
        }
        "optdens" | "revoptdens" => {
            macro_rules! go { ($T:ident) => {{
                let mut s = crate::densminhash::$T::<f64, u64, FnvHasher>::new(m, bh());
                if chunks.len() == 1 { s.sketch_slice(&chunks[0]).unwrap(); } else { for c in chunks { for x in c { s.sketch(x); } } s.end_sketch(); }
                s.get_hsketch_u64()
            }} }
            if kind == "optdens" { go!(OptDensMinHash) } else { go!(RevOptDensMinHash) }
        }
        _ => vec![],
    }
}
fn case(kind: &str, m: usize, items: &[u64], seed: u64) -> Option<(String, String)> {
    let base = sketch(kind, m, &[items.to_vec()]);
    let mut s = seed | 1;
    let mut rnd = move || { s ^= s << 13; s ^= s >> 7; s ^= s << 17; s };
    // reversed, shuffled, with repetitions, chunked
    let mut rev = items.to_vec(); rev.reverse();
    let mut shuf = items.to_vec(); for i in (1..shuf.len()).rev() { let j = (rnd() % (i as u64 + 1)) as usize; shuf.swap(i, j); }
    let mut rep = items.to_vec(); rep.extend_from_slice(&items[..items.len() / 2 + 1]); rep.insert(0, items[items.len() - 1]);
    let chunked: Vec<Vec<u64>> = items.chunks(3).map(|c| c.to_vec()).collect();
    let single: Vec<Vec<u64>> = items.iter().map(|x| vec![*x]).collect();
    for (what, v) in [("reversed", vec![rev]), ("shuffled", vec![shuf]), ("with repeated items", vec![rep]), ("in chunks of 3", chunked), ("item by item", single)] {
        let r = sketch(kind, m, &v);
        if r != base {
            let k = (0..m).find(|&i| r[i] != base[i]).unwrap_or(0);
            return Some((format!("{kind}: stream {what} gives a different sketch (first difference at position {k})"), "identical sketch".into()));
        }
    }
    if kind == "superminhash2" || kind == "optdens" || kind == "revoptdens" {
        let hashes: Vec<u64> = items.iter().map(|x| bh().hash_one(x)).collect();
        let hashes2: Vec<u64> = items.iter().map(|x| bh().hash_one(&x)).collect();
        for (i, v) in base.iter().enumerate() {
            if !hashes.contains(v) && !hashes2.contains(v) { return Some((format!("{kind}: position {i} holds {v}, not the hash of a streamed item"), "hash of a streamed item".into())); }
        }
    }
    None
}
#[test]
fn verif_replay_c04() {
    let mode = std::env::var("VERIF_REPLAY_MODE").unwrap_or_default();
    if mode.is_empty() { return; }
    let inp: serde_json::Value = serde_json::from_str(&std::fs::read_to_string(std::env::var("VERIF_REPLAY_IN").unwrap()).unwrap()).unwrap();
    if mode == "replay" {
        let w = &inp["input"];
        let items: Vec<u64> = w["items"].as_array().unwrap().iter().map(|x| x.as_u64().unwrap()).collect();
        match case(w["kind"].as_str().unwrap(), w["m"].as_u64().unwrap() as usize, &items, w["seed"].as_u64().unwrap()) {
            Some((o, e)) => out(true, w.clone(), o, e, 1),
            None => out(false, w.clone(), "identical".into(), "".into(), 1),
        }
        return;
    }
    let seed: u64 = std::env::var("VERIF_SEED").ok().and_then(|s| s.parse().ok()).unwrap_or(0);
    let thorough = std::env::var("VERIF_TIER").map(|t| t == "thorough").unwrap_or(false);
    let mut cases = 0u64;
    let sizes: &[usize] = if thorough { &[1, 2, 3, 8, 31, 64, 257] } else { &[2, 8, 64] };
    for kind in ["setsketch-b1.2", "setsketch-b1.5"] {
        for m in [8usize, 16] {
            for n in [20usize, 100, 300, 1000] {
                if !thorough && n > 300 { continue; }
                for rep in 0..(if thorough { 6 } else { 2 }) {
                    let items: Vec<u64> = (0..n as u64).map(|i| i + rep * 100_003 + (seed % 1000)).collect();
                    cases += 1;
                    let sd = seed ^ (cases * 0x9E37_79B9);
                    progress(&serde_json::json!({"kind": kind, "m": m, "items": items, "seed": sd}));
                    if let Some((o, e)) = case(kind, m, &items, sd) { out(true, serde_json::json!({"kind": kind, "m": m, "items": items, "seed": sd}), o, e, cases); return; }
                }
            }
        }
    }
    for kind in ["superminhash", "superminhash2", "setsketch", "optdens", "revoptdens"] {
        for &m in sizes {
            for n in [2usize, 3, 7, 40, 400, 3000] {
                if !thorough && n > 400 { continue; }
                for rep in 0..(if thorough { 6 } else { 2 }) {
                    let items: Vec<u64> = (0..n as u64).map(|i| (i + 1) * 2_654_435_761 + rep * 97 + seed).collect();
                    cases += 1;
                    let sd = seed ^ (cases * 0x9E37_79B9);
                    progress(&serde_json::json!({"kind": kind, "m": m, "items": items, "seed": sd}));
                    if let Some((o, e)) = case(kind, m, &items, sd) { out(true, serde_json::json!({"kind": kind, "m": m, "items": items, "seed": sd}), o, e, cases); return; }
                }
            }
        }
    }
    out(false, serde_json::Value::Null, "no disagreement".into(), "".into(), cases);
}
