// Witness search / replay for C05 on the real SetSketcher / SuperMinHash.
use fnv::FnvHasher;
use std::hash::BuildHasherDefault;
use std::io::Write;
use crate::setsketcher::{SetSketchParams, SetSketcher};

fn out(found: bool, input: serde_json::Value, observed: String, expected: String, cases: u64) {
    let p = std::env::var("VERIF_REPLAY_OUT").unwrap();
    let v = serde_json::json!({"module_file": file!(), "found": found, "input": input, "observed": observed, "expected": expected, "cases": cases});
    std::fs::File::create(p).unwrap().write_all(v.to_string().as_bytes()).unwrap();
}
fn bh() -> BuildHasherDefault<FnvHasher> { BuildHasherDefault::<FnvHasher>::default() }
type SS = SetSketcher<u16, u64, FnvHasher>;
fn mk(p: SetSketchParams, xs: &[u64]) -> SS { let mut s = SS::new(p, bh()); for x in xs { s.sketch(x).unwrap(); } s }

// m >= COARSE encodes "coarse registers": b = 1.5, a = 20, q = 62 with m - COARSE registers, so that the lower bound of the
// registers becomes active after a few dozen items (keeps the replay input format {m, a, b})
const COARSE: usize = 1_000_000;
fn case(m: usize, a: &[u64], b: &[u64]) -> Option<(String, String)> {
    let mut p = SetSketchParams::default();
    let m = if m >= COARSE { p = SetSketchParams::new(1.5, (m - COARSE) as u64, 20., 62); m - COARSE } else { p.set_m(m); m };
    let sa = mk(p, a);
    let sb = mk(p, b);
    let mut u: Vec<u64> = a.to_vec(); u.extend_from_slice(b);
    let su = mk(p, &u);
    // merge == sketch of the union; position-wise max
    let mut m1 = mk(p, a);
    if m1.merge(&sb).is_err() { return Some(("merge refused equal parameters".into(), "Ok".into())); }
    if m1.get_signature() != su.get_signature() { return Some((format!("merge(A,B) = {:?}", m1.get_signature()), format!("sketch(A u B) = {:?}", su.get_signature()))); }
    for i in 0..m { if m1.get_signature()[i] != sa.get_signature()[i].max(sb.get_signature()[i]) { return Some((format!("position {i}: {}", m1.get_signature()[i]), "max of the two registers".into())); } }
    // associativity through a merge-only accumulator: B.merge(empty.merge(A)) == sketch(A u B)
    let mut acc = SS::new(p, bh());
    acc.merge(&sa).unwrap();
    if acc.get_signature() != sa.get_signature() { return Some(("empty.merge(A) != sketch(A)".into(), "equal".into())); }
    let mut m3 = mk(p, b);
    m3.merge(&acc).unwrap();
    if m3.get_signature() != su.get_signature() { return Some((format!("B.merge(empty.merge(A)) = {:?}", &m3.get_signature()[..m.min(8)]), format!("sketch(A u B) = {:?}", &su.get_signature()[..m.min(8)]))); }
    let mut acc2 = SS::new(p, bh());
    acc2.merge(&sb).unwrap();
    acc2.merge(&sa).unwrap();
    if acc2.get_signature() != su.get_signature() { return Some(("(empty.merge(B)).merge(A) != sketch(A u B)".into(), "equal".into())); }
    // commutative, idempotent, continue streaming after merge
    let mut m2 = mk(p, b);
    m2.merge(&sa).unwrap();
    if m2.get_signature() != m1.get_signature() { return Some(("merge(B,A) != merge(A,B)".into(), "commutative".into())); }
    let before = m1.get_signature().clone();
    let copy = mk(p, &u);
    m1.merge(&copy).unwrap();
    if m1.get_signature() != &before { return Some(("merge with an equal sketch changed registers".into(), "idempotent".into())); }
    let extra: Vec<u64> = (0..50u64).map(|i| i * 7 + 900_000).collect();
    for x in &extra { m2.sketch(x).unwrap(); }
    let mut u2 = u.clone(); u2.extend_from_slice(&extra);
    let su2 = mk(p, &u2);
    if m2.get_signature() != su2.get_signature() { return Some(("streaming after merge differs from sketching everything".into(), "equal".into())); }
    let minreg = *m2.get_signature().iter().min().unwrap() as i64;
    if m2.get_low_sketch() > minreg { return Some((format!("get_low_sketch() = {}", m2.get_low_sketch()), format!("<= minimum register {minreg}"))); }
    // refusal leaves the receiver unchanged
    for (db, dq, dm) in [(0.01f64, 0u64, 0usize), (0.0, 1, 0), (0.0, 0, 1)] {
        let q = SetSketchParams::new(p.get_b() + db, (m + dm) as u64, p.get_a(), p.get_q() + dq);
        let other = mk(q, b);
        let mut r = mk(p, a);
        let sig = r.get_signature().clone(); let ov = r.get_nb_overflow(); let low = r.get_low_sketch();
        if r.merge(&other).is_ok() { return Some((format!("merge accepted different parameters (db={db}, dq={dq}, dm={dm})"), "Err".into())); }
        if r.get_signature() != &sig || r.get_nb_overflow() != ov || r.get_low_sketch() != low { return Some(("refused merge modified the receiver".into(), "unchanged".into())); }
    }
    // a refused merge (same m and q, different a or b) with a much larger argument: the receiver's lower bound must not move,
    // and streaming on must still give the sketch of everything streamed
    for (db, da) in [(0.0f64, 10.0f64), (0.002, 0.0)] {
        let q = SetSketchParams::new(p.get_b() + db, m as u64, p.get_a() + da, p.get_q());
        let big: Vec<u64> = (0..(60 * m as u64 + 200)).map(|i| i * 13 + 5_000_000).collect();
        let other = mk(q, &big);
        let mut r = mk(p, a);
        let sig = r.get_signature().clone(); let low = r.get_low_sketch();
        if r.merge(&other).is_ok() { return Some((format!("merge accepted different parameters (db={db}, da={da})"), "Err".into())); }
        if r.get_signature() != &sig || r.get_low_sketch() != low {
            return Some((format!("refused merge (db={db}, da={da}) modified the receiver: get_low_sketch {} -> {}", low, r.get_low_sketch()), "unchanged".into()));
        }
        let more: Vec<u64> = (0..(8 * m as u64 + 40)).map(|i| i * 11 + 700_000).collect();
        for x in &more { r.sketch(x).unwrap(); }
        let mut all = a.to_vec(); all.extend_from_slice(&more);
        let fresh = mk(p, &all);
        if r.get_signature() != fresh.get_signature() { return Some(("streaming after a refused merge differs from sketching everything".into(), "equal".into())); }
    }
    // SuperMinHash: sketch of a set == position-wise min of single-item sketches
    let mut s = crate::superminhasher::SuperMinHash::<f64, u64, FnvHasher>::new(m, bh());
    for x in a { s.sketch(x).unwrap(); }
    let mut mins = vec![f64::MAX; m];
    for x in a {
        let mut one = crate::superminhasher::SuperMinHash::<f64, u64, FnvHasher>::new(m, bh());
        one.sketch(x).unwrap();
        for i in 0..m { if one.get_hsketch()[i] < mins[i] { mins[i] = one.get_hsketch()[i]; } }
    }
    if !a.is_empty() && s.get_hsketch() != &mins { return Some((format!("SuperMinHash(A) = {:?}", s.get_hsketch()), format!("position-wise min of single-item sketches {:?}", mins))); }
    // the same with a sketcher that was used before and reinitialised (short histories leave the most state behind)
    for hist in [1usize, 2, 3] {
        let mut r = crate::superminhasher::SuperMinHash::<f64, u64, FnvHasher>::new(m, bh());
        for i in 0..hist { r.sketch(&(7_000_003u64 + i as u64)).unwrap(); }
        r.reinit();
        for x in a { r.sketch(x).unwrap(); }
        if !a.is_empty() && r.get_hsketch() != &mins {
            return Some((format!("SuperMinHash reused after {hist} items and reinit: {:?}", &r.get_hsketch()[..m.min(8)]), format!("position-wise min of single-item sketches {:?}", &mins[..m.min(8)])));
        }
    }
    None
}

#[test]
fn verif_replay_c05() {
    let mode = std::env::var("VERIF_REPLAY_MODE").unwrap_or_default();
    if mode.is_empty() { return; }
    let inp: serde_json::Value = serde_json::from_str(&std::fs::read_to_string(std::env::var("VERIF_REPLAY_IN").unwrap()).unwrap()).unwrap();
    let tov = |v: &serde_json::Value| -> Vec<u64> { v.as_array().unwrap().iter().map(|x| x.as_u64().unwrap()).collect() };
    if mode == "replay" {
        let w = &inp["input"];
        match case(w["m"].as_u64().unwrap() as usize, &tov(&w["a"]), &tov(&w["b"])) {
            Some((o, e)) => out(true, w.clone(), o, e, 1),
            None => out(false, w.clone(), "as specified".into(), "".into(), 1),
        }
        return;
    }
    let thorough = std::env::var("VERIF_TIER").map(|t| t == "thorough").unwrap_or(false);
    let mut cases = 0u64;
    let sizes: &[usize] = if thorough { &[2, 5, 16, 64, 256] } else { &[2, 16, 64] };
    for &m in sizes {
        for na in [1usize, 3, 40, 700] { for nb in [1usize, 5, 300] { for overlap in [0usize, 2] {
            let a: Vec<u64> = (0..na as u64).map(|i| i * 13 + 1).collect();
            let b: Vec<u64> = (0..nb as u64).map(|i| if (i as usize) < overlap { i * 13 + 1 } else { i * 11 + 500_000 }).collect();
            cases += 1;
            if let Some((o, e)) = case(m, &a, &b) { out(true, serde_json::json!({"m": m, "a": a, "b": b}), o, e, cases); return; }
        }}}
    }
    for m in [8usize, 16] {
        for na in [30usize, 200] { for nb in [1usize, 40, 300] { for overlap in [0usize, 5] {
            let a: Vec<u64> = (0..na as u64).map(|i| i * 13 + 1).collect();
            let b: Vec<u64> = (0..nb as u64).map(|i| if (i as usize) < overlap { i * 13 + 1 } else { i * 11 + 500_000 }).collect();
            cases += 1;
            if let Some((o, e)) = case(COARSE + m, &a, &b) { out(true, serde_json::json!({"m": COARSE + m, "a": a, "b": b}), o, e, cases); return; }
        }}}
    }
    out(false, serde_json::Value::Null, "no disagreement".into(), "".into(), cases);
}
