// Witness search / replay for C09 on the real densified sketchers.
// Each case runs in its own thread with a time limit: a finishing step that does not return within LIMIT is a hang.
use crate::densminhash::{OptDensMinHash, RevOptDensMinHash};
use fnv::FnvHasher;
use std::hash::BuildHasherDefault;
use std::io::Write;
use std::sync::mpsc;
use std::time::Duration;

const LIMIT: Duration = Duration::from_secs(6);

fn out(found: bool, input: serde_json::Value, observed: String, expected: String, cases: u64) {
    let p = std::env::var("VERIF_REPLAY_OUT").unwrap();
    let v = serde_json::json!({"module_file": file!(), "found": found, "input": input, "observed": observed, "expected": expected, "cases": cases});
    std::fs::File::create(p).unwrap().write_all(v.to_string().as_bytes()).unwrap();
}

#[derive(Clone, Debug, PartialEq)]
struct Views { f: Vec<f64>, u64v: Vec<u64>, u32v: Vec<u32> }

// kind: "opt" | "rev"; mode: "itemwise" (sketch each + end_sketch) | "slice" (sketch_slice) ; twice: call end_sketch a second time
fn run(kind: &str, m: usize, items: &[u64], mode: &str, twice: bool) -> Result<Option<Views>, String> {
    let (tx, rx) = mpsc::channel();
    let (kind, mode, items) = (kind.to_string(), mode.to_string(), items.to_vec());
    std::thread::spawn(move || {
        let h = std::panic::take_hook();
        std::panic::set_hook(Box::new(|_| {}));
        let r = std::panic::catch_unwind(move || {
            macro_rules! go { ($T:ident) => {{
                let mut s = $T::<f64, u64, FnvHasher>::new(m, BuildHasherDefault::<FnvHasher>::default());
                if mode == "slice" {
                    if s.sketch_slice(&items).is_err() { return None; }
                } else if mode == "emptytail" {
                    // the stream is fed item by item and closed with sketch_slice on an empty last chunk
                    for x in &items { s.sketch(x); }
                    let empty: Vec<u64> = Vec::new();
                    if s.sketch_slice(&empty).is_err() { return None; }
                } else if let Some(split) = mode.strip_prefix("resume:") {
                    // finish, go on streaming into the same sketch, finish again
                    let split: usize = split.parse().unwrap();
                    for x in &items[..split] { s.sketch(x); }
                    s.end_sketch();
                    for x in &items[split..] { s.sketch(x); }
                    s.end_sketch();
                } else {
                    for x in &items { s.sketch(x); }
                    s.end_sketch();
                }
                if twice { s.end_sketch(); }
                Some(Views { f: s.get_hsketch().clone(), u64v: s.get_hsketch_u64(), u32v: s.get_hsketch_u32() })
            }} }
            if kind == "opt" { go!(OptDensMinHash) } else { go!(RevOptDensMinHash) }
        });
        std::panic::set_hook(h);
        let _ = tx.send(r.map_err(|_| "panic".to_string()));
    });
    match rx.recv_timeout(LIMIT) {
        Ok(Ok(v)) => Ok(v),
        Ok(Err(_)) => Ok(None),          // failure reported by panic
        Err(_) => Err(format!("no return within {:?} (hang)", LIMIT)),
    }
}

fn check(kind: &str, m: usize, items: &[u64]) -> Option<(String, String)> {
    let a = match run(kind, m, items, "itemwise", false) { Ok(v) => v, Err(e) => return Some((format!("item-wise sketch + end_sketch: {e}"), "returns or reports failure".into())) };
    let b = match run(kind, m, items, "slice", false) { Ok(v) => v, Err(e) => return Some((format!("sketch_slice: {e}"), "returns or reports failure".into())) };
    if items.is_empty() {
        if a.is_some() || b.is_some() { return Some(("a sketch was returned for an empty stream".into(), "failure reported".into())); }
        return None;
    }
    let (a, b) = match (a, b) { (Some(a), Some(b)) => (a, b), _ => return Some(("failure reported for a non-empty stream".into(), "a finished sketch".into())) };
    if a != b { return Some((format!("sketch_slice {:?}", b.u64v), format!("item-wise + end_sketch {:?}", a.u64v))); }
    match run(kind, m, items, "itemwise", true) {
        Ok(Some(c)) if c == a => {}
        other => return Some((format!("second end_sketch changed the sketch: {:?}", other.map(|o| o.map(|v| v.u64v))), format!("{:?}", a.u64v))),
    }
    // item-wise streaming closed by sketch_slice(&[]) == item-wise streaming closed by end_sketch
    match run(kind, m, items, "emptytail", false) {
        Ok(Some(c)) if c == a => {}
        other => return Some((format!("items streamed one by one, then sketch_slice(&[]): {:?}", other.map(|o| o.map(|v| v.u64v))), format!("the finished sketch {:?}", a.u64v))),
    }
    // finishing, streaming on and finishing again: returns, is stable under one more finish, holds only hashes of streamed items
    let hashes0: Vec<u64> = items.iter().map(|x| { use std::hash::BuildHasher; BuildHasherDefault::<FnvHasher>::default().hash_one(&x) }).collect();
    for split in [1usize, items.len() / 2, items.len().saturating_sub(1)] {
        if split == 0 || split >= items.len() { continue; }
        let md = format!("resume:{split}");
        let r1 = match run(kind, m, items, &md, false) { Ok(v) => v, Err(e) => return Some((format!("finish after {split} items, stream the rest, finish: {e}"), "returns".into())) };
        let r1 = match r1 { Some(v) => v, None => return Some((format!("finish after {split} items, stream the rest, finish again: aborted"), "a finished sketch (the stream is not empty)".into())) };
        match run(kind, m, items, &md, true) {
            Ok(Some(c)) if c == r1 => {}
            other => return Some((format!("resumed stream (split {split}): one more end_sketch changed the sketch: {:?}", other.map(|o| o.map(|v| v.u64v))), format!("{:?}", r1.u64v))),
        }
        for i in 0..m {
            if !hashes0.contains(&r1.u64v[i]) { return Some((format!("resumed stream (split {split}): position {i} holds {} which is not the hash of a streamed item", r1.u64v[i]), "hash of a streamed item".into())); }
        }
    }
    // every position holds the hash of a streamed item; equal u64 => equal float and u32
    let hashes: Vec<u64> = items.iter().map(|x| { use std::hash::BuildHasher; BuildHasherDefault::<FnvHasher>::default().hash_one(&x) }).collect();
    for i in 0..m {
        if !hashes.contains(&a.u64v[i]) { return Some((format!("position {i} holds {} which is not the hash of a streamed item", a.u64v[i]), "hash of a streamed item".into())); }
        for j in 0..m {
            if a.u64v[i] == a.u64v[j] && (a.f[i] != a.f[j] || a.u32v[i] != a.u32v[j]) {
                return Some((format!("positions {i},{j} agree in the u64 view but not in the float/u32 views"), "agreement".into()));
            }
        }
    }
    None
}

#[test]
fn verif_replay_c09() {
    let mode = std::env::var("VERIF_REPLAY_MODE").unwrap_or_default();
    if mode.is_empty() { return; }
    let inp: serde_json::Value = serde_json::from_str(&std::fs::read_to_string(std::env::var("VERIF_REPLAY_IN").unwrap()).unwrap()).unwrap();
    if mode == "replay" {
        let w = &inp["input"];
        let items: Vec<u64> = w["items"].as_array().unwrap().iter().map(|x| x.as_u64().unwrap()).collect();
        match check(w["kind"].as_str().unwrap(), w["m"].as_u64().unwrap() as usize, &items) {
            Some((o, e)) => out(true, w.clone(), o, e, 1),
            None => out(false, w.clone(), "as specified".into(), "".into(), 1),
        }
        std::process::exit(0);
    }
    let thorough = std::env::var("VERIF_TIER").map(|t| t == "thorough").unwrap_or(false);
    let mut cases = 0u64;
    let sizes: &[usize] = if thorough { &[1, 2, 3, 7, 16, 64, 500] } else { &[1, 3, 16, 64] };
    // one-item and two-item streams on small sketches (all items may land in one bin)
    for kind in ["opt", "rev"] {
        for m in 1usize..=6 {
            for x in 0u64..(if thorough { 200 } else { 48 }) {
                for items in [vec![x], vec![x, x + 1000]] {
                    cases += 1;
                    if let Some((o, e)) = check(kind, m, &items) {
                        out(true, serde_json::json!({"kind": kind, "m": m, "items": items}), o, e, cases);
                        std::process::exit(0);
                    }
                }
            }
        }
    }
    for kind in ["opt", "rev"] {
        for &m in sizes {
            for n in [0usize, 1, 2, 5, 40, 300] {
                let items: Vec<u64> = (0..n as u64).map(|i| i * 7919 + 13).collect();
                cases += 1;
                if let Some((o, e)) = check(kind, m, &items) {
                    out(true, serde_json::json!({"kind": kind, "m": m, "items": items}), o, e, cases);
                    std::process::exit(0);   // a hung worker thread must not keep the test alive
                }
            }
        }
    }
    out(false, serde_json::Value::Null, "no disagreement".into(), "".into(), cases);
}
