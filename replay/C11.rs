// Witness search / replay for C11 on the real ProbOrdMinHash2.
// l = 1: the signature must be invariant under every permutation of the sequence (distinct and repeated elements).
// l >= 1: each position is the combined hash of l elements taken in sequence order -- checked through invariance of the
// signature under permutations that keep the relative order of equal... (only the l = 1 statement is checked here).
use fnv::FnvHasher;
use std::io::Write;
use crate::probminhasher::probordminhash2::ProbOrdMinHash2;

fn out(found: bool, input: serde_json::Value, observed: String, expected: String, cases: u64) {
    let p = std::env::var("VERIF_REPLAY_OUT").unwrap();
    let v = serde_json::json!({"module_file": file!(), "found": found, "input": input, "observed": observed, "expected": expected, "cases": cases});
    std::fs::File::create(p).unwrap().write_all(v.to_string().as_bytes()).unwrap();
}
fn progress(input: &serde_json::Value) {
    if let Ok(p) = std::env::var("VERIF_REPLAY_OUT") {
        let _ = std::fs::write(p.replace("verif_replay_out.json", "verif_replay_progress.json"), serde_json::json!({"input": input}).to_string());
    }
}
fn case(m: u32, seq: &[u64], perm: &[u64]) -> Option<(String, String)> {
    let mut h = ProbOrdMinHash2::<FnvHasher>::new(m, 1);
    let a = h.hash_set(seq);
    let b = h.hash_set(perm);
    if a != b {
        let k = (0..a.len()).find(|&i| a[i] != b[i]).unwrap();
        return Some((format!("l = 1 signature of the permuted sequence differs at position {k}: {} vs {}", b[k], a[k]), "identical signatures".into()));
    }
    None
}
#[test]
fn verif_replay_c11() {
    let mode = std::env::var("VERIF_REPLAY_MODE").unwrap_or_default();
    if mode.is_empty() { return; }
    let inp: serde_json::Value = serde_json::from_str(&std::fs::read_to_string(std::env::var("VERIF_REPLAY_IN").unwrap()).unwrap()).unwrap();
    let tov = |v: &serde_json::Value| -> Vec<u64> { v.as_array().unwrap().iter().map(|x| x.as_u64().unwrap()).collect() };
    if mode == "replay" {
        let w = &inp["input"];
        match case(w["m"].as_u64().unwrap() as u32, &tov(&w["sequence"]), &tov(&w["permuted"])) {
            Some((o, e)) => out(true, w.clone(), o, e, 1),
            None => out(false, w.clone(), "identical".into(), "".into(), 1),
        }
        return;
    }
    let seed: u64 = std::env::var("VERIF_SEED").ok().and_then(|s| s.parse().ok()).unwrap_or(0);
    let thorough = std::env::var("VERIF_TIER").map(|t| t == "thorough").unwrap_or(false);
    let mut s = seed ^ 0x2545_F491_4F6C_DD1D;
    let mut rnd = move || { s ^= s << 13; s ^= s >> 7; s ^= s << 17; s };
    let mut cases = 0u64;
    let trials = if thorough { 3000 } else { 300 };
    for t in 0..trials {
        let m = [2u32, 3, 8, 16, 64][t % 5];
        let n = [2usize, 3, 5, 12, 30, 200][t % 6];
        let distinct = t % 3 != 0;
        let seq: Vec<u64> = (0..n).map(|i| if distinct { i as u64 * 1_000_003 + rnd() % 1000 } else { rnd() % (n as u64 / 2 + 1) }).collect();
        // permutations: reversal, rotation, random shuffle
        let mut perms: Vec<Vec<u64>> = Vec::new();
        let mut r = seq.clone(); r.reverse(); perms.push(r);
        let mut r = seq.clone(); r.rotate_left(n / 2); perms.push(r);
        let mut r = seq.clone(); for i in (1..n).rev() { let j = (rnd() % (i as u64 + 1)) as usize; r.swap(i, j); } perms.push(r);
        for p in perms {
            cases += 1;
            progress(&serde_json::json!({"m": m, "sequence": seq, "permuted": p}));
            if let Some((o, e)) = case(m, &seq, &p) { out(true, serde_json::json!({"m": m, "sequence": seq, "permuted": p}), o, e, cases); return; }
        }
    }
    out(false, serde_json::Value::Null, "no disagreement".into(), "".into(), cases);
}
