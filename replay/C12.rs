// Witness search / replay for C12: the same input through (a) two instances in one thread, (b) instances in other threads,
// (c) an instance in another PROCESS (this test binary re-executed in "child" mode) must give bit-identical sketches.
use fnv::FnvHasher;
use std::hash::BuildHasherDefault;
use std::io::Write;
use indexmap::IndexMap;
use std::collections::HashMap;

fn out(found: bool, input: serde_json::Value, observed: String, expected: String, cases: u64) {
    let p = std::env::var("VERIF_REPLAY_OUT").unwrap();
    let v = serde_json::json!({"module_file": file!(), "found": found, "input": input, "observed": observed, "expected": expected, "cases": cases});
    std::fs::File::create(p).unwrap().write_all(v.to_string().as_bytes()).unwrap();
}
fn bh() -> BuildHasherDefault<FnvHasher> { BuildHasherDefault::<FnvHasher>::default() }

// every sketcher of the crate on one input; floats rendered as bit patterns
// hist > 0: every sketcher that can be recycled first sketches `hist` other items and is reinitialised (an instance taken from a pool)
fn all_sketches(m: usize, n: u64) -> Vec<(String, Vec<u64>)> { all_sketches_h(m, n, 0) }
fn all_sketches_h(m: usize, n: u64, hist: u64) -> Vec<(String, Vec<u64>)> {
    let items: Vec<u64> = (0..n).map(|i| i * 7919 + 3).collect();
    let old: Vec<u64> = (0..hist).map(|i| i * 104_729 + 11).collect();
    let mut res = Vec::new();
    let mut s = crate::superminhasher::SuperMinHash::<f64, u64, FnvHasher>::new(m, bh());
    if hist > 0 { for x in &old { s.sketch(x).unwrap(); } s.reinit(); }
    for x in &items { s.sketch(x).unwrap(); }
    res.push(("SuperMinHash".to_string(), s.get_hsketch().iter().map(|x| x.to_bits()).collect()));
    let mut s = crate::superminhasher2::SuperMinHash2::<u64, u64, FnvHasher>::new(m, bh());
    if hist > 0 { for x in &old { s.sketch(x).unwrap(); } s.reinit(); }
    for x in &items { s.sketch(x).unwrap(); }
    res.push(("SuperMinHash2".to_string(), s.get_hsketch().clone()));
    let mut p = crate::setsketcher::SetSketchParams::default(); p.set_m(m);
    let mut s = crate::setsketcher::SetSketcher::<u16, u64, FnvHasher>::new(p, bh());
    if hist > 0 { for x in &old { s.sketch(x).unwrap(); } s.reinit(); }
    for x in &items { s.sketch(x).unwrap(); }
    res.push(("SetSketcher".to_string(), s.get_signature().iter().map(|&x| x as u64).collect()));
    let mut s = crate::densminhash::OptDensMinHash::<f64, u64, FnvHasher>::new(m, bh());
    if hist > 0 { s.sketch_slice(&old).unwrap(); s.reinit(); }
    s.sketch_slice(&items).unwrap();
    res.push(("OptDensMinHash".to_string(), s.get_hsketch_u64()));
    let mut s = crate::densminhash::RevOptDensMinHash::<f64, u64, FnvHasher>::new(m, bh());
    if hist > 0 { s.sketch_slice(&old).unwrap(); s.reinit(); }
    s.sketch_slice(&items).unwrap();
    res.push(("RevOptDensMinHash".to_string(), s.get_hsketch_u64()));
    let mut s = crate::probminhasher::ProbMinHash2::<u64, FnvHasher>::new(m, 0);
    if hist > 0 { for x in &old { s.hash_item(*x, 2.0); } s.reset(); }
    for x in &items { s.hash_item(*x, 1.0 + (*x % 7) as f64); }
    res.push(("ProbMinHash2".to_string(), s.get_signature().clone()));
    let mut s = crate::probminhasher::ProbMinHash3::<u64, FnvHasher>::new(m, 0);
    for x in &items { s.hash_item(*x, &(1.0 + (*x % 7) as f64)); }
    res.push(("ProbMinHash3".to_string(), s.get_signature().clone()));
    let mut im: IndexMap<u64, f64> = IndexMap::new();
    for x in &items { im.insert(*x, 1.0 + (*x % 7) as f64); }
    let mut s = crate::probminhasher::ProbMinHash3a::<u64, FnvHasher>::new(m, 0);
    s.hash_weigthed_idxmap(&im);
    res.push(("ProbMinHash3a".to_string(), s.get_signature().clone()));
    // std HashMap with its per-process RandomState: iteration order differs between processes, the signature must not
    let mut hm: HashMap<u64, f64> = HashMap::new();
    for x in &items { hm.insert(*x, 1.0 + (*x % 7) as f64); }
    let mut s = crate::probminhasher::ProbMinHash3a::<u64, FnvHasher>::new(m, 0);
    s.hash_weigthed_hashmap(&hm);
    res.push(("ProbMinHash3a(HashMap)".to_string(), s.get_signature().clone()));
    let mut sm: IndexMap<String, f64> = IndexMap::new();
    for x in &items { sm.insert(format!("item{x}"), 1.0 + (*x % 7) as f64); }
    let mut s = crate::probminhasher::ProbMinHash3aSha::<String>::new(m, String::new());
    s.hash_weigthed_idxmap(&sm);
    res.push(("ProbMinHash3aSha".to_string(), s.get_signature().iter().map(|x| x.len() as u64 * 1000 + x.bytes().map(|b| b as u64).sum::<u64>()).collect()));
    if m >= 2 && items.len() >= 2 {
        let mut s = crate::probminhasher::probordminhash2::ProbOrdMinHash2::<FnvHasher>::new(m as u32, 2);
        if hist >= 2 { let _ = s.hash_set(&old); }
        res.push(("ProbOrdMinHash2".to_string(), s.hash_set(&items)));
    }
    res
}

fn diff(a: &[(String, Vec<u64>)], b: &[(String, Vec<u64>)], what: &str) -> Option<(String, String)> {
    for (x, y) in a.iter().zip(b.iter()) {
        if x != y { return Some((format!("{} {}: {:?}", x.0, what, &y.1[..y.1.len().min(8)]), format!("{:?}", &x.1[..x.1.len().min(8)]))); }
    }
    None
}

fn case(m: usize, n: u64) -> Option<(String, String)> {
    let a = all_sketches(m, n);
    let b = all_sketches(m, n);
    if let Some(d) = diff(&a, &b, "second instance in the same thread") { return Some(d); }
    for hist in [1u64, 2, 3, 40] {
        let r = all_sketches_h(m, n, hist);
        if let Some(d) = diff(&a, &r, &format!("recycled instance ({hist} items sketched, then reinit/reset)")) { return Some(d); }
    }
    let hs: Vec<_> = (0..3).map(|_| std::thread::spawn(move || all_sketches(m, n))).collect();
    for h in hs { let c = h.join().unwrap(); if let Some(d) = diff(&a, &c, "instance in another thread") { return Some(d); } }
    // another process
    let tmp = std::env::temp_dir().join(format!("verif_c12_{}_{}_{}.json", std::process::id(), m, n));
    let st = std::process::Command::new(std::env::current_exe().unwrap())
        .args(["verif_replay::", "--nocapture", "--test-threads=1"])
        .env("VERIF_REPLAY_MODE", "child").env("VERIF_C12_M", m.to_string()).env("VERIF_C12_N", n.to_string()).env("VERIF_C12_OUT", &tmp)
        .stdout(std::process::Stdio::null()).stderr(std::process::Stdio::null()).status();
    if st.is_err() || !tmp.exists() { return None; }   // cannot spawn: not a finding
    let c: Vec<(String, Vec<u64>)> = serde_json::from_str(&std::fs::read_to_string(&tmp).unwrap()).unwrap();
    let _ = std::fs::remove_file(&tmp);
    diff(&a, &c, "instance in another process")
}

#[test]
fn verif_replay_c12() {
    let mode = std::env::var("VERIF_REPLAY_MODE").unwrap_or_default();
    if mode.is_empty() { return; }
    if mode == "child" {
        let m: usize = std::env::var("VERIF_C12_M").unwrap().parse().unwrap();
        let n: u64 = std::env::var("VERIF_C12_N").unwrap().parse().unwrap();
        std::fs::write(std::env::var("VERIF_C12_OUT").unwrap(), serde_json::to_string(&all_sketches(m, n)).unwrap()).unwrap();
        return;
    }
    let inp: serde_json::Value = serde_json::from_str(&std::fs::read_to_string(std::env::var("VERIF_REPLAY_IN").unwrap()).unwrap()).unwrap();
    if mode == "replay" {
        let w = &inp["input"];
        match case(w["m"].as_u64().unwrap() as usize, w["n"].as_u64().unwrap()) {
            Some((o, e)) => out(true, w.clone(), o, e, 1),
            None => out(false, w.clone(), "identical".into(), "".into(), 1),
        }
        return;
    }
    let mut cases = 0u64;
    for m in [2usize, 16, 64] { for n in [2u64, 50, 2000] {
        cases += 1;
        if let Some((o, e)) = case(m, n) { out(true, serde_json::json!({"m": m, "n": n}), o, e, cases); return; }
    }}
    out(false, serde_json::Value::Null, "identical across instances, threads and processes".into(), "".into(), cases);
}
