// Witness search / replay for C13: differential test reinit/reset vs new on the real sketchers.
// For each sketcher: history H (a few items), reinit, stream B  ==  fresh sketcher, stream B.
use fnv::FnvHasher;
use std::hash::BuildHasherDefault;
use std::io::Write;

fn out(found: bool, input: serde_json::Value, observed: String, expected: String, cases: u64) {
    let p = std::env::var("VERIF_REPLAY_OUT").unwrap();
    let v = serde_json::json!({"module_file": file!(), "found": found, "input": input, "observed": observed, "expected": expected, "cases": cases});
    std::fs::File::create(p).unwrap().write_all(v.to_string().as_bytes()).unwrap();
}
fn progress(input: &serde_json::Value) {
    if let Ok(p) = std::env::var("VERIF_REPLAY_OUT") {
        let _ = std::fs::write(p.replace("verif_replay_out.json", "verif_replay_progress.json"), serde_json::json!({"input": input}).to_string());
    }
}
fn bh() -> BuildHasherDefault<FnvHasher> { BuildHasherDefault::<FnvHasher>::default() }

fn case(kind: &str, m: usize, hist: &[u64], b: &[u64]) -> Option<(String, String)> {
    match kind {
        "superminhash" => {
            let mut u = crate::superminhasher::SuperMinHash::<f64, u64, FnvHasher>::new(m, bh());
            for x in hist { u.sketch(x).unwrap(); }
            u.reinit();
            for x in b { u.sketch(x).unwrap(); }
            let mut f = crate::superminhasher::SuperMinHash::<f64, u64, FnvHasher>::new(m, bh());
            for x in b { f.sketch(x).unwrap(); }
            if u.get_hsketch() != f.get_hsketch() { return Some((format!("{:?}", u.get_hsketch()), format!("{:?}", f.get_hsketch()))); }
        }
        "superminhash2" => {
            let mut u = crate::superminhasher2::SuperMinHash2::<u64, u64, FnvHasher>::new(m, bh());
            for x in hist { u.sketch(x).unwrap(); }
            u.reinit();
            for x in b { u.sketch(x).unwrap(); }
            let mut f = crate::superminhasher2::SuperMinHash2::<u64, u64, FnvHasher>::new(m, bh());
            for x in b { f.sketch(x).unwrap(); }
            if u.get_hsketch() != f.get_hsketch() { return Some((format!("{:?}", u.get_hsketch()), format!("{:?}", f.get_hsketch()))); }
        }
        "setsketch" => {
            let mut p = crate::setsketcher::SetSketchParams::default();
            p.set_m(m);
            let mut u = crate::setsketcher::SetSketcher::<u16, u64, FnvHasher>::new(p, bh());
            for x in hist { u.sketch(x).unwrap(); }
            u.reinit();
            for x in b { u.sketch(x).unwrap(); }
            let mut f = crate::setsketcher::SetSketcher::<u16, u64, FnvHasher>::new(p, bh());
            for x in b { f.sketch(x).unwrap(); }
            if u.get_signature() != f.get_signature() || u.get_low_sketch() != f.get_low_sketch() || u.get_nb_overflow() != f.get_nb_overflow() {
                return Some((format!("{:?} low {}", u.get_signature(), u.get_low_sketch()), format!("{:?} low {}", f.get_signature(), f.get_low_sketch())));
            }
            // history made of merges only (and merges followed by sketching)
            for also_sketch in [false, true] {
                let mut other = crate::setsketcher::SetSketcher::<u16, u64, FnvHasher>::new(p, bh());
                for x in hist { other.sketch(x).unwrap(); }
                let mut u = crate::setsketcher::SetSketcher::<u16, u64, FnvHasher>::new(p, bh());
                u.merge(&other).unwrap();
                if also_sketch { for x in hist { u.sketch(&(x + 77)).unwrap(); } }
                u.reinit();
                if u.get_signature().iter().any(|&r| r != 0) && !hist.is_empty() {
                    return Some((format!("after merge-only history and reinit the registers are {:?}", &u.get_signature()[..u.get_signature().len().min(8)]), "all zero, as in a new sketcher".into()));
                }
                for x in b { u.sketch(x).unwrap(); }
                if u.get_signature() != f.get_signature() || u.get_nb_overflow() != f.get_nb_overflow() {
                    return Some((format!("after a history of merges, reinit, then the input: {:?}", &u.get_signature()[..u.get_signature().len().min(8)]), format!("{:?}", &f.get_signature()[..f.get_signature().len().min(8)])));
                }
            }
        }
        "optdens" | "revoptdens" => {
            macro_rules! go { ($T:ident) => {{
                let mut u = crate::densminhash::$T::<f64, u64, FnvHasher>::new(m, bh());
                for x in hist { u.sketch(x); }
                if !hist.is_empty() { u.end_sketch(); }
                u.reinit();
                for x in b { u.sketch(x); }
                u.end_sketch();
                let mut f = crate::densminhash::$T::<f64, u64, FnvHasher>::new(m, bh());
                for x in b { f.sketch(x); }
                f.end_sketch();
                if u.get_hsketch_u64() != f.get_hsketch_u64() || u.get_hsketch() != f.get_hsketch() { return Some((format!("{:?}", u.get_hsketch_u64()), format!("{:?}", f.get_hsketch_u64()))); }
            }} }
            if kind == "optdens" { go!(OptDensMinHash) } else { go!(RevOptDensMinHash) }
        }
        "probminhash2" => {
            let mut u = crate::probminhasher::ProbMinHash2::<u64, FnvHasher>::new(m, 0);
            for x in hist { u.hash_item(*x, 1.0 + (*x % 5) as f64); }
            u.reset();
            for x in b { u.hash_item(*x, 1.0 + (*x % 3) as f64); }
            let mut f = crate::probminhasher::ProbMinHash2::<u64, FnvHasher>::new(m, 0);
            for x in b { f.hash_item(*x, 1.0 + (*x % 3) as f64); }
            if u.get_signature() != f.get_signature() { return Some((format!("{:?}", u.get_signature()), format!("{:?}", f.get_signature()))); }
        }
        "probordminhash2" => {
            if b.len() < 2 || m < 2 { return None; }
            let mut u = crate::probminhasher::probordminhash2::ProbOrdMinHash2::<FnvHasher>::new(m as u32, 2);
            let first = u.hash_set(b);
            if hist.len() >= 2 { let _ = u.hash_set(hist); }
            let again = u.hash_set(b);
            if first != again { return Some((format!("{:?}", again), format!("{:?} (same instance, same input, before the intervening call)", first))); }
        }
        _ => {}
    }
    None
}

#[test]
fn verif_replay_c13() {
    let mode = std::env::var("VERIF_REPLAY_MODE").unwrap_or_default();
    if mode.is_empty() { return; }
    let inp: serde_json::Value = serde_json::from_str(&std::fs::read_to_string(std::env::var("VERIF_REPLAY_IN").unwrap()).unwrap()).unwrap();
    let tov = |v: &serde_json::Value| -> Vec<u64> { v.as_array().unwrap().iter().map(|x| x.as_u64().unwrap()).collect() };
    if mode == "replay" {
        let w = &inp["input"];
        match case(w["kind"].as_str().unwrap(), w["m"].as_u64().unwrap() as usize, &tov(&w["history"]), &tov(&w["input"])) {
            Some((o, e)) => out(true, w.clone(), o, e, 1),
            None => out(false, w.clone(), "identical to a fresh sketcher".into(), "".into(), 1),
        }
        return;
    }
    let thorough = std::env::var("VERIF_TIER").map(|t| t == "thorough").unwrap_or(false);
    let mut cases = 0u64;
    let sizes: &[usize] = if thorough { &[2, 3, 8, 33, 128] } else { &[2, 8, 33] };
    for kind in ["superminhash", "superminhash2", "setsketch", "optdens", "revoptdens", "probminhash2", "probordminhash2"] {
        for &m in sizes {
            for hn in [0usize, 1, 3, 50, 400] {
                for bn in [1usize, 2, 7, 120] {
                    let hist: Vec<u64> = (0..hn as u64).map(|i| i * 31 + 5).collect();
                    let b: Vec<u64> = (0..bn as u64).map(|i| i * 17 + 1000).collect();
                    cases += 1;
                    progress(&serde_json::json!({"kind": kind, "m": m, "history": hist, "input": b}));
                    if let Some((o, e)) = case(kind, m, &hist, &b) {
                        out(true, serde_json::json!({"kind": kind, "m": m, "history": hist, "input": b}), o, e, cases);
                        return;
                    }
                }
            }
        }
    }
    out(false, serde_json::Value::Null, "no disagreement".into(), "".into(), cases);
}
