// Witness search / replay for C14 (counting estimators) on the real functions.
// Cases: all pairs of sketches of length 1..=L over a 3-letter alphabet, plus mismatched lengths.
use std::io::Write;
use std::hash::BuildHasherDefault;
use fnv::FnvHasher;

fn out(found: bool, input: serde_json::Value, observed: String, expected: String, cases: u64) {
    let p = std::env::var("VERIF_REPLAY_OUT").unwrap();
    let v = serde_json::json!({"module_file": file!(), "found": found, "input": input, "observed": observed, "expected": expected, "cases": cases});
    std::fs::File::create(p).unwrap().write_all(v.to_string().as_bytes()).unwrap();
}
fn quiet<R>(f: impl FnOnce() -> R + std::panic::UnwindSafe) -> Option<R> {
    let h = std::panic::take_hook();
    std::panic::set_hook(Box::new(|_| {}));
    let r = std::panic::catch_unwind(f).ok();
    std::panic::set_hook(h);
    r
}
fn count(a: &[u64], b: &[u64]) -> usize { a.iter().zip(b.iter()).filter(|(x, y)| x == y).count() }

// each estimator as (name, closure returning Some(value) on normal return / None when a mismatch was reported)
fn eval(which: usize, a: &Vec<u64>, b: &Vec<u64>) -> Option<f64> {
    let (a2, b2) = (a.clone(), b.clone());
    match which {
        0 => quiet(move || crate::jaccard::compute_probminhash_jaccard(&a2, &b2)),
        1 => quiet(move || crate::jaccard::get_jaccard_index_estimate(&a2, &b2).ok()).flatten(),
        2 => quiet(move || {
            let fa: Vec<f64> = a2.iter().map(|&x| x as f64).collect();
            let fb: Vec<f64> = b2.iter().map(|&x| x as f64).collect();
            crate::superminhasher::compute_superminhash_jaccard(&fa, &fb).ok()
        }).flatten(),
        3 => quiet(move || {
            let fa: Vec<f64> = a2.iter().map(|&x| x as f64).collect();
            let fb: Vec<f64> = b2.iter().map(|&x| x as f64).collect();
            crate::superminhasher::get_jaccard_index_estimate(&fa, &fb).ok()
        }).flatten(),
        4 => quiet(move || crate::superminhasher2::compute_superminhash_jaccard(&a2, &b2).ok().map(|x| x as f64)).flatten(),
        5 => quiet(move || crate::superminhasher2::get_jaccard_index_estimate(&a2, &b2).ok().map(|x| x as f64)).flatten(),
        _ => None,
    }
}
const NAMES: [&str; 6] = ["jaccard::compute_probminhash_jaccard", "jaccard::get_jaccard_index_estimate", "superminhasher::compute_superminhash_jaccard",
    "superminhasher::get_jaccard_index_estimate", "superminhasher2::compute_superminhash_jaccard", "superminhasher2::get_jaccard_index_estimate"];

fn check_pair(a: &Vec<u64>, b: &Vec<u64>) -> Option<(usize, String, String)> {
    for w in 0..6 {
        let r = eval(w, a, b);
        if a.len() != b.len() {
            if let Some(v) = r { return Some((w, format!("{} returned {v} for lengths {} and {}", NAMES[w], a.len(), b.len()), "an error or a panic".into())); }
            continue;
        }
        let want = if w >= 4 { (count(a, b) as f32 / a.len() as f32) as f64 } else { count(a, b) as f64 / a.len() as f64 };
        match r {
            None => return Some((w, format!("{} reported an error on equal lengths", NAMES[w]), format!("{want}"))),
            Some(v) => {
                if v != want { return Some((w, format!("{} = {v}", NAMES[w]), format!("{want} = {}/{}", count(a, b), a.len()))); }
                let back = eval(w, b, a);
                if back != Some(v) { return Some((w, format!("{} not symmetric: {:?} vs {v}", NAMES[w], back), format!("{v}"))); }
            }
        }
    }
    None
}

// the two methods need a sketcher: sketch a few items, then compare against a copy of its own sketch with some positions changed
fn check_methods(m: usize, changed: usize, extra: usize) -> Option<(String, String)> {
    let mut s1 = crate::superminhasher::SuperMinHash::<f64, u64, FnvHasher>::new(m, BuildHasherDefault::<FnvHasher>::default());
    for x in 0..20u64 { s1.sketch(&x).unwrap(); }
    let mut other: Vec<f64> = s1.get_hsketch().clone();
    for i in 0..changed.min(m) { other[i] += 0.5; }
    for _ in 0..extra { other.push(1.0); }
    let r = s1.get_jaccard_index_estimate(&other);
    if extra > 0 {
        if let Ok(v) = r { return Some((format!("SuperMinHash::get_jaccard_index_estimate returned {v} for lengths {m} and {}", m + extra), "an error".into())); }
    } else {
        let want = (m - changed.min(m)) as f64 / m as f64;
        match r { Ok(v) if v == want => {}, other_r => return Some((format!("SuperMinHash::get_jaccard_index_estimate = {:?}", other_r.ok()), format!("{want}"))) }
    }
    let mut s2 = crate::superminhasher2::SuperMinHash2::<u64, u64, FnvHasher>::new(m, BuildHasherDefault::<FnvHasher>::default());
    for x in 0..20u64 { s2.sketch(&x).unwrap(); }
    let mut o2: Vec<u64> = s2.get_hsketch().clone();
    for i in 0..changed.min(m) { o2[i] = o2[i].wrapping_add(1); }
    for _ in 0..extra { o2.push(1); }
    let r2 = s2.get_jaccard_index_estimate(&o2);
    if extra > 0 {
        if let Ok(v) = r2 { return Some((format!("SuperMinHash2::get_jaccard_index_estimate returned {v} for lengths {m} and {}", m + extra), "an error".into())); }
    } else {
        let want = (m - changed.min(m)) as f64 / m as f64;
        match r2 { Ok(v) if v == want => {}, other_r => return Some((format!("SuperMinHash2::get_jaccard_index_estimate = {:?}", other_r.ok()), format!("{want}"))) }
    }
    None
}

// MLE estimator: two sets sketched with the same parameters; must return a finite value in [0,1] and not abort
fn check_mle(m: usize, na: u64, nb: u64, shift: u64) -> Option<(String, String)> {
    use crate::setsketcher::{MleJaccard, SetSketchParams, SetSketcher};
    let mut p = SetSketchParams::default();
    p.set_m(m);
    let mut sa = SetSketcher::<u16, u64, FnvHasher>::new(p, BuildHasherDefault::<FnvHasher>::default());
    let mut sb = SetSketcher::<u16, u64, FnvHasher>::new(p, BuildHasherDefault::<FnvHasher>::default());
    for x in 0..na { sa.sketch(&x).unwrap(); }
    for x in shift..shift + nb { sb.sketch(&x).unwrap(); }
    let (ka, kb) = (sa.get_signature().clone(), sb.get_signature().clone());
    let r = quiet(move || { let mle = MleJaccard::from(p); mle.get_mle(&ka, &kb) });
    match r {
        None => Some((format!("get_mle aborted (panic) for |A| = {na}, |B| = {nb}, B starting at {shift}, m = {m}"), "a finite value in [0,1]".into())),
        Some(Some(v)) if v.is_finite() && (0.0..=1.0).contains(&v) => None,
        Some(other) => Some((format!("get_mle returned {:?}", other), "a finite value in [0,1]".into())),
    }
}

#[test]
fn verif_replay_c14() {
    let mode = std::env::var("VERIF_REPLAY_MODE").unwrap_or_default();
    if mode.is_empty() { return; }
    let inp: serde_json::Value = serde_json::from_str(&std::fs::read_to_string(std::env::var("VERIF_REPLAY_IN").unwrap()).unwrap()).unwrap();
    let tov = |v: &serde_json::Value| -> Vec<u64> { v.as_array().unwrap().iter().map(|x| x.as_u64().unwrap()).collect() };
    if mode == "replay" {
        let w = &inp["input"];
        if w["kind"] == "mle" {
            match check_mle(w["m"].as_u64().unwrap() as usize, w["na"].as_u64().unwrap(), w["nb"].as_u64().unwrap(), w["shift"].as_u64().unwrap()) {
                Some((o, e)) => out(true, w.clone(), o, e, 1), None => out(false, w.clone(), "finite value in [0,1]".into(), "".into(), 1) }
        } else if w["kind"] == "method" {
            match check_methods(w["m"].as_u64().unwrap() as usize, w["changed"].as_u64().unwrap() as usize, w["extra"].as_u64().unwrap() as usize) {
                Some((o, e)) => out(true, w.clone(), o, e, 1), None => out(false, w.clone(), "as specified".into(), "".into(), 1) }
        } else {
            match check_pair(&tov(&w["a"]), &tov(&w["b"])) {
                Some((_, o, e)) => out(true, w.clone(), o, e, 1), None => out(false, w.clone(), "as specified".into(), "".into(), 1) }
        }
        return;
    }
    let thorough = std::env::var("VERIF_TIER").map(|t| t == "thorough").unwrap_or(false);
    let ll = if thorough { 6 } else { 4 };
    let mut cases = 0u64;
    let mut seqs: Vec<Vec<u64>> = vec![vec![]];
    for len in 1..=ll {
        for code in 0..3u64.pow(len as u32) {
            let mut c = code;
            seqs.push((0..len).map(|_| { let t = c % 3; c /= 3; t }).collect());
        }
    }
    for a in &seqs {
        for b in &seqs {
            if a.is_empty() || b.is_empty() { continue; }
            if a.len() != b.len() && (a.len() > 3 || b.len() > 3) && !thorough { continue; }
            cases += 1;
            if let Some((_, o, e)) = check_pair(a, b) { out(true, serde_json::json!({"kind": "pair", "a": a, "b": b}), o, e, cases); return; }
        }
    }
    for m in [1usize, 2, 5, 16] {
        for changed in [0usize, 1, 3] {
            for extra in [0usize, 1, 4] {
                cases += 1;
                if let Some((o, e)) = check_methods(m, changed, extra) { out(true, serde_json::json!({"kind": "method", "m": m, "changed": changed, "extra": extra}), o, e, cases); return; }
            }
        }
    }
    for (m, na, nb, shift) in [(256usize, 1000u64, 1000u64, 500u64), (256, 100, 10000, 0), (256, 10000, 100, 0), (64, 5000, 5000, 0), (64, 50, 50, 1000), (1024, 300, 30000, 100), (128, 2000, 40, 10)] {
        cases += 1;
        if let Some((o, e)) = check_mle(m, na, nb, shift) { out(true, serde_json::json!({"kind": "mle", "m": m, "na": na, "nb": nb, "shift": shift}), o, e, cases); return; }
    }
    out(false, serde_json::Value::Null, "no disagreement".into(), "".into(), cases);
}
