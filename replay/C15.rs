// Witness search / replay for C15 on the real MaxValueTracker (crate-private, hence in-crate).
// search: every update sequence of length <= L over m slots (m <= M) with values from a 4-element set (ties included),
// compared against the naive model (per-slot minimum, maximum of slots, strict comparison, reset).
use crate::maxvaluetrack::*;
use std::io::Write;

fn out(found: bool, input: serde_json::Value, observed: String, expected: String, cases: u64) {
    let p = std::env::var("VERIF_REPLAY_OUT").unwrap();
    let v = serde_json::json!({"module_file": file!(), "found": found, "input": input, "observed": observed, "expected": expected, "cases": cases});
    std::fs::File::create(p).unwrap().write_all(v.to_string().as_bytes()).unwrap();
}
fn progress(input: &serde_json::Value) {
    if let Ok(p) = std::env::var("VERIF_REPLAY_OUT") {
        let p = p.replace("verif_replay_out.json", "verif_replay_progress.json");
        let _ = std::fs::write(p, serde_json::json!({"input": input}).to_string());
    }
}

const VALS: [u64; 4] = [1, 5, 5_000, u64::MAX - 1];

// returns Some((observed, expected)) on the first disagreement
fn run_case(m: usize, ups: &[(usize, u64)], reset_at: Option<usize>) -> Option<(String, String)> {
    let mut t = MaxValueTracker::<u64>::new(m);
    let mut model = vec![u64::MAX; m];
    for (step, &(k, v)) in ups.iter().enumerate() {
        if Some(step) == reset_at {
            t.reset();
            model = vec![u64::MAX; m];
        }
        t.update(k, v);
        if v < model[k] { model[k] = v; }
        let mx = *model.iter().max().unwrap();
        for j in 0..m {
            if t.get_value(j) != model[j] {
                return Some((format!("after step {step}: get_value({j}) = {}", t.get_value(j)), format!("{}", model[j])));
            }
        }
        if t.get_max_value() != mx {
            return Some((format!("after step {step}: get_max_value() = {}", t.get_max_value()), format!("{mx}")));
        }
        for &p in VALS.iter().chain([0u64, u64::MAX].iter()) {
            if t.is_update_possible(p) != (p < mx) {
                return Some((format!("after step {step}: is_update_possible({p}) = {}", t.is_update_possible(p)), format!("{}", p < mx)));
            }
        }
    }
    None
}

#[test]
fn verif_replay_c15() {
    let mode = std::env::var("VERIF_REPLAY_MODE").unwrap_or_default();
    if mode.is_empty() { return; }
    let inp: serde_json::Value = serde_json::from_str(&std::fs::read_to_string(std::env::var("VERIF_REPLAY_IN").unwrap()).unwrap()).unwrap();
    if mode == "replay" {
        let w = &inp["input"];
        let m = w["m"].as_u64().unwrap() as usize;
        let ups: Vec<(usize, u64)> = w["updates"].as_array().unwrap().iter().map(|p| (p[0].as_u64().unwrap() as usize, p[1].as_u64().unwrap())).collect();
        let reset_at = w["reset_before_step"].as_u64().map(|x| x as usize);
        progress(w);
        match run_case(m, &ups, reset_at) {
            Some((o, e)) => out(true, w.clone(), o, e, 1),
            None => out(false, w.clone(), "agrees with the model".into(), "".into(), 1),
        }
        return;
    }
    let thorough = std::env::var("VERIF_TIER").map(|t| t == "thorough").unwrap_or(false);
    let (mm, ll) = if thorough { (6usize, 7usize) } else { (5usize, 5usize) };
    let mut cases = 0u64;
    for m in 1..=mm {
        let choices = m * VALS.len();
        for len in 1..=ll {
            let total = (choices as u64).pow(len as u32);
            if total > 3_000_000 { continue; }
            for code in 0..total {
                let mut c = code;
                let mut ups = Vec::with_capacity(len);
                for _ in 0..len {
                    let x = (c % choices as u64) as usize;
                    c /= choices as u64;
                    ups.push((x / VALS.len(), VALS[x % VALS.len()]));
                }
                for reset_at in [None, Some(len / 2)] {
                    cases += 1;
                    if let Some((o, e)) = run_case(m, &ups, reset_at) {
                        let w = serde_json::json!({"m": m, "updates": ups.iter().map(|&(k, v)| vec![k as u64, v]).collect::<Vec<_>>(), "reset_before_step": reset_at});
                        out(true, w, o, e, cases);
                        return;
                    }
                }
            }
        }
    }
    out(false, serde_json::Value::Null, "no disagreement with the model".into(), "".into(), cases);
}
