// Witness search / replay for C16 (range part) on the real sampler: scripted generator outputs on a grid plus
// seeded pseudo-random streams, for a spread of rates; reports a sample outside [0,1).
use crate::exp01::ExpRestricted01;
use rand::distr::Distribution;
use rand::RngCore;
use std::io::Write;

struct ScriptRng { vals: Vec<u64>, pos: usize, s: u64 }
impl RngCore for ScriptRng {
    fn next_u32(&mut self) -> u32 { (self.next_u64() >> 32) as u32 }
    fn next_u64(&mut self) -> u64 {
        if self.pos < self.vals.len() { let v = self.vals[self.pos]; self.pos += 1; return v; }
        self.s ^= self.s << 13; self.s ^= self.s >> 7; self.s ^= self.s << 17; self.s
    }
    fn fill_bytes(&mut self, dst: &mut [u8]) { for b in dst.iter_mut() { *b = self.next_u64() as u8; } }
}
fn out(found: bool, input: serde_json::Value, observed: String, expected: String, cases: u64) {
    let p = std::env::var("VERIF_REPLAY_OUT").unwrap();
    let v = serde_json::json!({"module_file": file!(), "found": found, "input": input, "observed": observed, "expected": expected, "cases": cases});
    std::fs::File::create(p).unwrap().write_all(v.to_string().as_bytes()).unwrap();
}
fn one(lambda: f64, script: &[u64], seed: u64) -> f64 {
    let e = ExpRestricted01::new(lambda);
    let mut r = ScriptRng { vals: script.to_vec(), pos: 0, s: seed | 1 };
    e.sample(&mut r)
}
#[test]
fn verif_replay_c16() {
    let mode = std::env::var("VERIF_REPLAY_MODE").unwrap_or_default();
    if mode.is_empty() { return; }
    let inp: serde_json::Value = serde_json::from_str(&std::fs::read_to_string(std::env::var("VERIF_REPLAY_IN").unwrap()).unwrap()).unwrap();
    if mode == "replay" {
        let w = &inp["input"];
        if w["kind"] == "law" {
            let l = w["lambda"].as_f64().unwrap(); let n = w["n"].as_u64().unwrap_or(400_000) as usize; let seed = w["seed"].as_u64().unwrap();
            let e = ExpRestricted01::new(l);
            let mut r = ScriptRng { vals: vec![], pos: 0, s: (seed ^ 0x5DEECE66D) | 1 };
            let mut xs: Vec<f64> = (0..n).map(|_| e.sample(&mut r)).collect();
            xs.sort_by(|a, b| a.partial_cmp(b).unwrap());
            let cdf = |x: f64| (-l * x).exp_m1() / (-l).exp_m1();
            let mut d = 0f64;
            for (i, x) in xs.iter().enumerate() { let f = cdf(*x); d = d.max((f - i as f64 / n as f64).abs()).max(((i + 1) as f64 / n as f64 - f).abs()); }
            let stat = d * (n as f64).sqrt();
            if stat > 2.5 { out(true, w.clone(), format!("KS statistic {stat:.2}"), "< 2.5".into(), 1) } else { out(false, w.clone(), format!("KS statistic {stat:.2}"), "".into(), 1) }
            return;
        }
        let script: Vec<u64> = w["script"].as_array().unwrap().iter().map(|x| x.as_u64().unwrap()).collect();
        let x = one(w["lambda"].as_f64().unwrap(), &script, w["seed"].as_u64().unwrap());
        if x >= 0.0 && x < 1.0 { out(false, w.clone(), format!("{x}"), "".into(), 1) } else { out(true, w.clone(), format!("sample = {x}"), "0 <= sample < 1".into(), 1) }
        return;
    }
    let seed: u64 = std::env::var("VERIF_SEED").ok().and_then(|s| s.parse().ok()).unwrap_or(0);
    let thorough = std::env::var("VERIF_TIER").map(|t| t == "thorough").unwrap_or(false);
    let grid: Vec<u64> = vec![0, 1, 1 << 11, 1 << 12, u64::MAX, u64::MAX - (1 << 12), 1 << 63, (1 << 63) - 1, (1 << 63) + (1 << 12), 0x4000_0000_0000_0000, 0xC000_0000_0000_0000];
    let lambdas = [1e-9, 1e-3, 0.01, 0.0101, 0.5, 0.6931, 1.0, 3.0, 30.0, 700.0];
    let mut cases = 0u64;
    // boundary draws of the first (rectangle) branch: generator words u = k / 2^52 for which c1 * u rounds to 1.0 or to its neighbours,
    // for the rates ProbMinHash3 uses (lambda = ln(m / (m - 1))) and the spread above
    {
        let mut rates: Vec<f64> = lambdas.to_vec();
        let mm = if thorough { 4096 } else { 400 };
        for m in 2..=mm { rates.push(((m as f64) / ((m - 1) as f64)).ln()); }
        let two52 = (1u64 << 52) as f64;
        for &l in &rates {
            let c1 = l.exp_m1() / l;
            if !(c1.is_finite() && c1 >= 1.0) { continue; }
            let k0 = (two52 / c1) as u64;
            for dk in 0..7u64 {
                let k = (k0 + dk).saturating_sub(3);
                if k >= (1u64 << 52) { continue; }
                for &nxt in &[0u64, u64::MAX, 1 << 63] {
                    cases += 1;
                    let script = [k << 12, nxt, nxt];
                    let x = one(l, &script, seed ^ cases);
                    if !(x >= 0.0 && x < 1.0) { out(true, serde_json::json!({"lambda": l, "script": script, "seed": seed ^ cases}), format!("sample = {x}"), "0 <= sample < 1".into(), cases); return; }
                }
            }
        }
    }
    for &l in &lambdas {
        for &a in &grid { for &b in &grid { for &c in &grid {
            cases += 1;
            let x = one(l, &[a, b, c], seed ^ cases);
            if !(x >= 0.0 && x < 1.0) { out(true, serde_json::json!({"lambda": l, "script": [a, b, c], "seed": seed ^ cases}), format!("sample = {x}"), "0 <= sample < 1".into(), cases); return; }
        }}}
        let n = if thorough { 2_000_000 } else { 100_000 };
        for i in 0..n {
            cases += 1;
            let x = one(l, &[], seed.wrapping_add(i * 2 + 1));
            if !(x >= 0.0 && x < 1.0) { out(true, serde_json::json!({"lambda": l, "script": [], "seed": seed.wrapping_add(i * 2 + 1)}), format!("sample = {x}"), "0 <= sample < 1".into(), cases); return; }
        }
    }
    // law (NOT decided by the contracts; seeded Kolmogorov-Smirnov smoke test, outside the deductive technique):
    // 100_000 samples per rate at the quick tier, 400_000 at the thorough tier; P(sqrt(n) D_n > 2.5) < 1e-5 under the right law
    {
        for &l in &[1e-9f64, 0.0100503, 0.6931, 1.5, 3.0, 10.0, 30.0] {
            let n = if thorough { 400_000usize } else { 100_000usize };
            let e = ExpRestricted01::new(l);
            let mut r = ScriptRng { vals: vec![], pos: 0, s: (seed ^ 0x5DEECE66D) | 1 };
            let mut xs: Vec<f64> = (0..n).map(|_| e.sample(&mut r)).collect();
            xs.sort_by(|a, b| a.partial_cmp(b).unwrap());
            let cdf = |x: f64| (-l * x).exp_m1() / (-l).exp_m1();
            let mut d = 0f64;
            for (i, x) in xs.iter().enumerate() { let f = cdf(*x); d = d.max((f - i as f64 / n as f64).abs()).max(((i + 1) as f64 / n as f64 - f).abs()); }
            cases += 1;
            let stat = d * (n as f64).sqrt();
            if stat > 2.5 { out(true, serde_json::json!({"lambda": l, "script": [], "seed": seed, "kind": "law", "n": n}), format!("Kolmogorov-Smirnov sqrt(n) D_n = {stat:.2} for lambda = {l} over {n} seeded samples"), "< 2.5 (exponential law of rate lambda conditioned on [0,1))".into(), cases); return; }
        }
    }
    out(false, serde_json::Value::Null, "all samples in [0,1)".into(), "".into(), cases);
}
