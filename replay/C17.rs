// Witness search / replay for C17 on the real FYshuffle, driven by a scripted generator.
// A script is a list of grid cells t in 0..G; the generator returns the u64 for which Uniform[0,1) yields (t+1/2)/G.
use crate::fyshuffle::FYshuffle;
use rand::RngCore;
use std::io::Write;

const RAW_TOP: u64 = u64::MAX;
const RAW_BOTTOM: u64 = u64::MAX - 1;
const G: u64 = 12; // divisible by 1,2,3,4: every choice of every step is hit equally often

struct ScriptRng { vals: Vec<u64>, pos: usize }
impl RngCore for ScriptRng {
    fn next_u32(&mut self) -> u32 { (self.next_u64() >> 32) as u32 }
    fn next_u64(&mut self) -> u64 {
        let t = self.vals[self.pos % self.vals.len()];
        self.pos += 1;
        // the two extreme generator words, passed through unchanged (top / bottom of the unit interval)
        if t == RAW_TOP { return u64::MAX; }
        if t == RAW_BOTTOM { return 0; }
        // Uniform<f64>::new(0,1) maps the top 52 bits to [0,1); put the cell midpoint (t+1/2)/G there
        ((((2 * t + 1) as u128) << 63) / (G as u128)) as u64
    }
    fn fill_bytes(&mut self, dst: &mut [u8]) { for b in dst.iter_mut() { *b = self.next_u64() as u8; } }
}

fn out(found: bool, input: serde_json::Value, observed: String, expected: String, cases: u64) {
    let p = std::env::var("VERIF_REPLAY_OUT").unwrap();
    let v = serde_json::json!({"module_file": file!(), "found": found, "input": input, "observed": observed, "expected": expected, "cases": cases});
    std::fs::File::create(p).unwrap().write_all(v.to_string().as_bytes()).unwrap();
}
fn progress(input: &serde_json::Value) {
    if let Ok(p) = std::env::var("VERIF_REPLAY_OUT") {
        let _ = std::fs::write(p.replace("verif_replay_out.json", "verif_replay_progress.json"), serde_json::json!({"input": input}).to_string());
    }
}
fn is_perm(v: &[usize], m: usize) -> bool {
    let mut seen = vec![false; m];
    v.len() == m && v.iter().all(|&x| x < m && !std::mem::replace(&mut seen[x], true))
}
fn draws(fy: &mut FYshuffle, rng: &mut ScriptRng, n: usize) -> Vec<usize> { (0..n).map(|_| fy.next(rng)).collect() }

// one case: history (number of draws before the reset, with its own script), then reset, then two blocks with `script`
fn run_case(m: usize, hist: usize, script: &[u64]) -> Option<(String, String)> {
    let mut fresh = FYshuffle::new(m);
    let mut r1 = ScriptRng { vals: script.to_vec(), pos: 0 };
    let b1 = draws(&mut fresh, &mut r1, m);
    if !is_perm(&b1, m) { return Some((format!("first block after new: {:?}", b1), format!("a permutation of 0..{m}"))); }
    let b2 = draws(&mut fresh, &mut r1, m);
    if !is_perm(&b2, m) { return Some((format!("second block without reset: {:?}", b2), format!("a permutation of 0..{m}"))); }
    // history, reset, same script
    // several different histories per case (what survives a partial reset depends on the permutation the history left behind)
    for hs in 0u64..8 {
    let mut used = FYshuffle::new(m);
    let mut rh = ScriptRng { vals: vec![(7 + 5 * hs) % G, (3 + 7 * hs) % G, (11 + hs) % G, (hs * 3) % G, (5 + 11 * hs) % G, (1 + hs * hs) % G, (9 + 2 * hs) % G], pos: 0 };
    let _ = draws(&mut used, &mut rh, hist);
    used.reset();
    let mut r2 = ScriptRng { vals: script.to_vec(), pos: 0 };
    let c1 = draws(&mut used, &mut r2, m);
    if c1 != b1 { return Some((format!("after {hist} draws (history script {hs}) and reset: {:?}", c1), format!("{:?} (fresh shuffle, same generator output)", b1))); }
    if used.get_values() != &c1 { return Some((format!("get_values() = {:?}", used.get_values()), format!("{:?}", c1))); }
    }
    None
}

#[test]
fn verif_replay_c17() {
    let mode = std::env::var("VERIF_REPLAY_MODE").unwrap_or_default();
    if mode.is_empty() { return; }
    let inp: serde_json::Value = serde_json::from_str(&std::fs::read_to_string(std::env::var("VERIF_REPLAY_IN").unwrap()).unwrap()).unwrap();
    if mode == "replay" {
        let w = &inp["input"];
        progress(w);
        let m = w["m"].as_u64().unwrap() as usize;
        if w["kind"] == "unreachable" || w["kind"] == "nonuniform" {
            let (o, e) = reach(m);
            if o != e { out(true, w.clone(), o, e, 1) } else { out(false, w.clone(), "all orders equally often".into(), "".into(), 1) }
            return;
        }
        let hist = w["history_draws"].as_u64().unwrap() as usize;
        let script: Vec<u64> = w["script"].as_array().unwrap().iter().map(|x| x.as_u64().unwrap()).collect();
        match run_case(m, hist, &script) {
            Some((o, e)) => out(true, w.clone(), o, e, 1),
            None => out(false, w.clone(), "as specified".into(), "".into(), 1),
        }
        return;
    }
    let thorough = std::env::var("VERIF_TIER").map(|t| t == "thorough").unwrap_or(false);
    let mm = if thorough { 5 } else { 4 };
    let mut cases = 0u64;
    // the extreme generator words at every step of a block (a draw at the very top of the unit interval must stay inside lastidx..m)
    for m in 1..=(if thorough { 9 } else { 6 }) {
        for pos in 0..m {
            for (ext, fill) in [(RAW_TOP, 0u64), (RAW_TOP, G - 1), (RAW_BOTTOM, G - 1), (RAW_BOTTOM, 5)] {
                let mut script = vec![fill; m];
                script[pos] = ext;
                for hist in [0usize, m + 2] {
                    cases += 1;
                    let w = serde_json::json!({"kind": "block", "m": m, "history_draws": hist, "script": script});
                    progress(&w);
                    if let Some((o, e)) = run_case(m, hist, &script) { out(true, w, o, e, cases); return; }
                }
            }
        }
    }
    for m in 1..=mm {
        let total = G.pow(m as u32);
        for code in 0..total {
            let mut c = code;
            let script: Vec<u64> = (0..m).map(|_| { let t = c % G; c /= G; t }).collect();
            // every number of draws before the reset from 0 to 3m+1 (wrap-arounds inside next included)
            for hist in 0..=(3 * m + 1) {
                cases += 1;
                let w = serde_json::json!({"kind": "block", "m": m, "history_draws": hist, "script": script});
                if code % 997 == 0 { progress(&w); }
                if let Some((o, e)) = run_case(m, hist, &script) { out(true, w, o, e, cases); return; }
            }
        }
        if m <= 4 {
            let (o, e) = reach(m);
            cases += 1;
            if o != e { out(true, serde_json::json!({"kind": "nonuniform", "m": m}), o, e, cases); return; }
        }
    }
    out(false, serde_json::Value::Null, "no disagreement".into(), "".into(), cases);
}

// over the full grid G^m of generator outputs every one of the m! orders must occur exactly G^m / m! times
fn reach(m: usize) -> (String, String) {
    let mut count = std::collections::BTreeMap::<Vec<usize>, u64>::new();
    let total = G.pow(m as u32);
    for code in 0..total {
        let mut c = code;
        let script: Vec<u64> = (0..m).map(|_| { let t = c % G; c /= G; t }).collect();
        let mut fy = FYshuffle::new(m);
        let mut r = ScriptRng { vals: script, pos: 0 };
        let b = draws(&mut fy, &mut r, m);
        *count.entry(b).or_insert(0) += 1;
    }
    let fact: u64 = (1..=m as u64).product();
    let want = total / fact;
    let ok = count.len() as u64 == fact && count.values().all(|&c| c == want);
    if ok { ("uniform".into(), "uniform".into()) } else {
        (format!("m={m}: {} distinct orders over the {total}-point generator grid, counts {:?}", count.len(), count.values().collect::<Vec<_>>()),
         format!("{fact} orders, each {want} times"))
    }
}
