// Witness search / replay for C18 on the real Sig impls (native run; an invalid free aborts the process,
// which the driver reads off the progress file).
use crate::probminhasher::sig::Sig;
use std::io::Write;

fn out(found: bool, input: serde_json::Value, observed: String, expected: String, cases: u64) {
    let p = std::env::var("VERIF_REPLAY_OUT").unwrap();
    let v = serde_json::json!({"module_file": file!(), "found": found, "input": input, "observed": observed, "expected": expected, "cases": cases});
    std::fs::File::create(p).unwrap().write_all(v.to_string().as_bytes()).unwrap();
}
fn progress(input: &serde_json::Value) {
    if let Ok(p) = std::env::var("VERIF_REPLAY_OUT") {
        let _ = std::fs::write(p.replace("verif_replay_out.json", "verif_replay_progress.json"), serde_json::json!({"input": input}).to_string());
    }
}
fn case(kind: &str, vals: &[u64]) -> Option<(String, String)> {
    match kind {
        "vec_u8" => { let v: Vec<u8> = vals.iter().map(|&x| x as u8).collect(); let r = v.get_sig(); if r != v { return Some((format!("{:?}", r), format!("{:?}", v))); } }
        "vec_u16" => {
            let v: Vec<u16> = vals.iter().map(|&x| x as u16).collect();
            let want: Vec<u8> = v.iter().flat_map(|x| x.to_ne_bytes()).collect();
            // the same value in vectors whose capacity exceeds their length (grown by push, shrunk by truncate): same bytes
            {
                let mut grown: Vec<u16> = Vec::with_capacity(v.len() + 5);
                for x in &v { grown.push(*x); }
                let rg = grown.get_sig();
                if rg != want { return Some((format!("vector with spare capacity {}: {:?}", grown.capacity() - grown.len(), rg), format!("{:?}", want))); }
                let mut shrunk: Vec<u16> = v.clone();
                shrunk.extend_from_slice(&[7, 8, 9, 10, 11]);
                shrunk.truncate(v.len());
                let rs = shrunk.get_sig();
                if rs != want { return Some((format!("vector truncated from a longer one: {:?}", rs), format!("{:?}", want))); }
            }
            let r = v.get_sig();
            // force allocator traffic so that a dangling / doubly owned buffer shows
            let filler: Vec<Vec<u8>> = (0..8).map(|i| vec![0xAA; want.len().max(1) + (i & 1)]).collect();
            let same = r == want;
            drop(filler);
            if !same { return Some((format!("{:?}", r), format!("{:?}", want))); }
        }
        "vec_u32" => {
            let v: Vec<u32> = vals.iter().map(|&x| x as u32).collect();
            let want: Vec<u8> = v.iter().flat_map(|x| x.to_ne_bytes()).collect();
            // the same value in vectors whose capacity exceeds their length (grown by push, shrunk by truncate): same bytes
            {
                let mut grown: Vec<u32> = Vec::with_capacity(v.len() + 5);
                for x in &v { grown.push(*x); }
                let rg = grown.get_sig();
                if rg != want { return Some((format!("vector with spare capacity {}: {:?}", grown.capacity() - grown.len(), rg), format!("{:?}", want))); }
                let mut shrunk: Vec<u32> = v.clone();
                shrunk.extend_from_slice(&[7, 8, 9, 10, 11]);
                shrunk.truncate(v.len());
                let rs = shrunk.get_sig();
                if rs != want { return Some((format!("vector truncated from a longer one: {:?}", rs), format!("{:?}", want))); }
            }
            let r = v.get_sig();
            let filler: Vec<Vec<u8>> = (0..8).map(|i| vec![0xAA; want.len().max(1) + (i & 1)]).collect();
            let same = r == want;
            drop(filler);
            if !same { return Some((format!("{:?}", r), format!("{:?}", want))); }
        }
        "string" => { let s: String = vals.iter().map(|&x| char::from_u32((x % 0x250) as u32 + 0x20).unwrap()).collect(); let r = s.get_sig(); if r != s.as_bytes() { return Some((format!("{:?}", r), format!("{:?}", s.as_bytes()))); } }
        "u16" => { for &x in vals { let r = (x as u16).get_sig(); if r != (x as u16).to_ne_bytes() { return Some((format!("{:?}", r), format!("{:?}", (x as u16).to_ne_bytes()))); } } }
        "u32" => { for &x in vals { let r = (x as u32).get_sig(); if r != (x as u32).to_ne_bytes() { return Some((format!("{:?}", r), format!("{:?}", (x as u32).to_ne_bytes()))); } } }
        "u64" => { for &x in vals { let r = x.get_sig(); if r != x.to_ne_bytes() { return Some((format!("{:?}", r), format!("{:?}", x.to_ne_bytes()))); } } }
        "i16" => { for &x in vals { let r = (x as i16).get_sig(); if r != (x as i16).to_ne_bytes() { return Some((format!("{:?}", r), format!("{:?}", (x as i16).to_ne_bytes()))); } } }
        "i32" => { for &x in vals { let r = (x as i32).get_sig(); if r != (x as i32).to_ne_bytes() { return Some((format!("{:?}", r), format!("{:?}", (x as i32).to_ne_bytes()))); } } }
        "u8" => { for &x in vals { let r = (x as u8).get_sig(); if r != vec![x as u8] { return Some((format!("{:?}", r), format!("{:?}", vec![x as u8]))); } } }
        _ => {}
    }
    None
}

#[test]
fn verif_replay_c18() {
    let mode = std::env::var("VERIF_REPLAY_MODE").unwrap_or_default();
    if mode.is_empty() { return; }
    let inp: serde_json::Value = serde_json::from_str(&std::fs::read_to_string(std::env::var("VERIF_REPLAY_IN").unwrap()).unwrap()).unwrap();
    if mode == "replay" {
        let w = &inp["input"];
        progress(w);
        let vals: Vec<u64> = w["values"].as_array().unwrap().iter().map(|x| x.as_u64().unwrap()).collect();
        match case(w["kind"].as_str().unwrap(), &vals) {
            Some((o, e)) => out(true, w.clone(), o, e, 1),
            None => out(false, w.clone(), "bytes as specified, no abort".into(), "".into(), 1),
        }
        return;
    }
    let mut cases = 0u64;
    let pools: [&[u64]; 5] = [&[], &[1], &[0x1234, 0xffff_fffe], &[7, 0, 0xdead_beef, 0x8000_0001], &[1, 2, 3, 4, 5, 6, 7, 8, 9, 10, 11, 12, 13, 14, 15, 16, 17]];
    for kind in ["u8", "u16", "u32", "u64", "i16", "i32", "vec_u8", "string", "vec_u16", "vec_u32"] {
        for vals in pools.iter() {
            for rep in 0..50 {
                cases += 1;
                let w = serde_json::json!({"kind": kind, "values": vals, "repetition": rep});
                progress(&w);
                if let Some((o, e)) = case(kind, vals) { out(true, w, o, e, cases); return; }
            }
        }
    }
    out(false, serde_json::Value::Null, "no disagreement, no abort".into(), "".into(), cases);
}
