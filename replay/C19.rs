// Witness search / replay for C19 on the real functions of src/invhash.rs.
// search: 0, all-ones, single bits, carries, then pseudo-random words (seeded); thorough: all 2^32 words for the 32-bit pair.
use crate::invhash::*;
use std::io::Write;

fn out(found: bool, input: serde_json::Value, observed: String, expected: String, cases: u64) {
    let p = std::env::var("VERIF_REPLAY_OUT").unwrap();
    let v = serde_json::json!({"module_file": file!(), "found": found, "input": input, "observed": observed, "expected": expected, "cases": cases});
    let mut f = std::fs::File::create(p).unwrap();
    f.write_all(v.to_string().as_bytes()).unwrap();
}

// the replay is built with arithmetic overflow checks on (as `cargo test` does): a step that overflows panics, which is a failure of
// "every word has an image"; the panic is caught and reported as the observation
fn guarded<T: Copy + std::fmt::Display + std::panic::UnwindSafe + 'static>(x: T, f: fn(T) -> Option<(String, String)>) -> Option<(String, String)> {
    let h = std::panic::take_hook();
    std::panic::set_hook(Box::new(|_| {}));
    let r = std::panic::catch_unwind(move || f(x));
    std::panic::set_hook(h);
    match r { Ok(v) => v, Err(_) => Some((format!("the round trip of {x} panicked (arithmetic overflow in a build with overflow checks)"), format!("{x}"))) }
}
fn bad64(x: u64) -> Option<(String, String)> { guarded(x, raw64) }
fn bad32(x: u32) -> Option<(String, String)> { guarded(x, raw32) }
fn raw64(x: u64) -> Option<(String, String)> {
    let a = int64_hash_inverse(int64_hash(x));
    if a != x { return Some((format!("int64_hash_inverse(int64_hash({x})) = {a}"), format!("{x}"))); }
    let b = int64_hash(int64_hash_inverse(x));
    if b != x { return Some((format!("int64_hash(int64_hash_inverse({x})) = {b}"), format!("{x}"))); }
    None
}
fn raw32(x: u32) -> Option<(String, String)> {
    let a = int32_hash_inverse(int32_hash(x));
    if a != x { return Some((format!("int32_hash_inverse(int32_hash({x})) = {a}"), format!("{x}"))); }
    let b = int32_hash(int32_hash_inverse(x));
    if b != x { return Some((format!("int32_hash(int32_hash_inverse({x})) = {b}"), format!("{x}"))); }
    None
}

#[test]
fn verif_replay_c19() {
    let mode = std::env::var("VERIF_REPLAY_MODE").unwrap_or_default();
    if mode.is_empty() { return; }
    let inp: serde_json::Value = serde_json::from_str(&std::fs::read_to_string(std::env::var("VERIF_REPLAY_IN").unwrap()).unwrap()).unwrap();
    if mode == "replay" {
        let w = &inp["input"];
        let bits = w["bits"].as_u64().unwrap();
        let x = w["x"].as_u64().unwrap();
        let r = if bits == 64 { bad64(x) } else { bad32(x as u32) };
        match r {
            Some((o, e)) => out(true, w.clone(), o, e, 1),
            None => out(false, w.clone(), "round trip holds".into(), "".into(), 1),
        }
        return;
    }
    let seed: u64 = std::env::var("VERIF_SEED").ok().and_then(|s| s.parse().ok()).unwrap_or(0);
    let thorough = std::env::var("VERIF_TIER").map(|t| t == "thorough").unwrap_or(false);
    let mut cases = 0u64;
    let mut words: Vec<u64> = vec![0, u64::MAX, 1, u32::MAX as u64, 0x8000_0000_0000_0000, 0x7fff_ffff_ffff_ffff];
    for b in 0..64 { words.push(1u64 << b); words.push(!(1u64 << b)); words.push((1u64 << b).wrapping_sub(1)); }
    let mut s = seed ^ 0x9e37_79b9_7f4a_7c15;
    let n = if thorough { 20_000_000 } else { 1_000_000 };
    for _ in 0..n { s ^= s << 13; s ^= s >> 7; s ^= s << 17; words.push(s); }
    for &x in &words {
        cases += 1;
        if let Some((o, e)) = bad64(x) { out(true, serde_json::json!({"bits": 64, "x": x}), o, e, cases); return; }
        if let Some((o, e)) = bad32(x as u32) { out(true, serde_json::json!({"bits": 32, "x": (x as u32)}), o, e, cases); return; }
    }
    // the 32-bit pair is always swept exhaustively (a few seconds in release): a witness search only runs when an
    // obligation failed or could not be decided, and a one-in-2^32 failing word must not be missed then
    {
        let h = std::panic::take_hook();
        std::panic::set_hook(Box::new(|_| {}));
        let mut hit: Option<(u32, String, String)> = None;
        for x in 0..=u32::MAX {
            cases += 1;
            match std::panic::catch_unwind(move || raw32(x)) {
                Ok(None) => {}
                Ok(Some((o, e))) => { hit = Some((x, o, e)); break; }
                Err(_) => { hit = Some((x, format!("the round trip of {x} panicked (arithmetic overflow in a build with overflow checks)"), format!("{x}"))); break; }
            }
        }
        std::panic::set_hook(h);
        if let Some((x, o, e)) = hit { out(true, serde_json::json!({"bits": 32, "x": x}), o, e, cases); return; }
    }
    out(false, serde_json::Value::Null, "no failing word".into(), "".into(), cases);
}
