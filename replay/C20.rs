// Witness search / replay for C20 on the real dump_json / reload_json (temporary directory under std::env::temp_dir()).
use crate::setsketcher::SetSketchParams;
use std::io::Write;

fn out(found: bool, input: serde_json::Value, observed: String, expected: String, cases: u64) {
    let p = std::env::var("VERIF_REPLAY_OUT").unwrap();
    let v = serde_json::json!({"module_file": file!(), "found": found, "input": input, "observed": observed, "expected": expected, "cases": cases});
    std::fs::File::create(p).unwrap().write_all(v.to_string().as_bytes()).unwrap();
}
fn quiet<R>(f: impl FnOnce() -> R + std::panic::UnwindSafe) -> Option<R> {
    let h = std::panic::take_hook();
    std::panic::set_hook(Box::new(|_| {}));
    let r = std::panic::catch_unwind(f).ok();
    std::panic::set_hook(h);
    r
}
fn same(p: &SetSketchParams, q: &SetSketchParams) -> bool { p.get_m() == q.get_m() && p.get_q() == q.get_q() && p.get_a() == q.get_a() && p.get_b() == q.get_b() }

// cut: None = full dump; Some(n) = file truncated to n bytes; Some(usize::MAX) = file removed
// dirsuffix: appended to the name of the dump directory (directory names with dots, trailing separators, ...)
fn case(b: f64, m: u64, a: f64, q: u64, cut: Option<usize>) -> Option<(String, String)> { case_in("", b, m, a, q, cut) }
fn case_in(dirsuffix: &str, b: f64, m: u64, a: f64, q: u64, cut: Option<usize>) -> Option<(String, String)> {
    let root = std::env::temp_dir().join(format!("verif_c20_{}", std::process::id()));
    let dir = root.join(format!("d{}", dirsuffix));
    let _ = std::fs::create_dir_all(&dir);
    let file = dir.join("parameters.json");
    let _ = std::fs::remove_file(&file);
    let p = SetSketchParams::new(b, m, a, q);
    if p.dump_json(&dir).is_err() { let _ = std::fs::remove_dir_all(&root); return Some(("dump_json failed on a writable directory".into(), "Ok".into())); }
    let full = std::fs::read(&file).unwrap();
    let res = match cut {
        None => {
            let d = dir.clone();
            match quiet(move || SetSketchParams::reload_json(&d)) {
                None => Some(("reload_json aborted (panic) on a complete dump".to_string(), "Ok(same parameters)".to_string())),
                Some(Err(e)) => Some((format!("reload_json returned Err({e}) on a complete dump"), "Ok(same parameters)".into())),
                Some(Ok(r)) => if same(&p, &r) { None } else { Some((format!("reloaded {:?}", r), format!("{:?}", p))) },
            }
        }
        Some(n) => {
            if n == usize::MAX { std::fs::remove_file(&file).unwrap(); } else { std::fs::write(&file, &full[..n.min(full.len())]).unwrap(); }
            let d = dir.clone();
            match quiet(move || SetSketchParams::reload_json(&d)) {
                None => Some((format!("reload_json aborted (panic) on a file cut to {} of {} bytes", if n == usize::MAX { 0 } else { n }, full.len()), "Err".to_string())),
                Some(Err(_)) => None,
                Some(Ok(r)) => if n != usize::MAX && n >= full.len() { None } else { Some((format!("reload_json returned Ok({:?}) from a torn file", r), "Err".into())) },
            }
        }
    };
    let _ = std::fs::remove_dir_all(&root);
    res
}

#[test]
fn verif_replay_c20() {
    let mode = std::env::var("VERIF_REPLAY_MODE").unwrap_or_default();
    if mode.is_empty() { return; }
    let inp: serde_json::Value = serde_json::from_str(&std::fs::read_to_string(std::env::var("VERIF_REPLAY_IN").unwrap()).unwrap()).unwrap();
    if mode == "replay" {
        let w = &inp["input"];
        if w["kind"] == "two dumps" {
            let dir = std::env::temp_dir().join(format!("verif_c20b_{}", std::process::id()));
            let _ = std::fs::create_dir_all(&dir);
            let long = SetSketchParams::new(1.123456789012345, 4096, 20.000000001, 65534);
            let short = SetSketchParams::new(1.5, 2, 2.0, 3);
            let _ = long.dump_json(&dir); let _ = short.dump_json(&dir);
            let d = dir.clone();
            let r = quiet(move || SetSketchParams::reload_json(&d));
            let _ = std::fs::remove_dir_all(&dir);
            if matches!(&r, Some(Ok(p)) if same(p, &short)) { out(false, w.clone(), "second dump reloaded".into(), "".into(), 1) } else { out(true, w.clone(), "second (shorter) dump is not what reload_json returns".into(), "Ok(second parameters)".into(), 1) }
            return;
        }
        let cut = if w["cut"].is_null() { None } else if w["cut"] == "missing" { Some(usize::MAX) } else { Some(w["cut"].as_u64().unwrap() as usize) };
        match case_in(w["dirsuffix"].as_str().unwrap_or(""), w["b"].as_f64().unwrap(), w["m"].as_u64().unwrap(), w["a"].as_f64().unwrap(), w["q"].as_u64().unwrap(), cut) {
            Some((o, e)) => out(true, w.clone(), o, e, 1),
            None => out(false, w.clone(), "as specified".into(), "".into(), 1),
        }
        return;
    }
    let mut cases = 0u64;
    // a second, shorter dump into the same directory must replace the first one completely
    {
        let dir = std::env::temp_dir().join(format!("verif_c20b_{}", std::process::id()));
        let _ = std::fs::create_dir_all(&dir);
        let long = SetSketchParams::new(1.123456789012345, 4096, 20.000000001, 65534);
        let short = SetSketchParams::new(1.5, 2, 2.0, 3);
        cases += 1;
        let ok = long.dump_json(&dir).is_ok() && short.dump_json(&dir).is_ok();
        let d = dir.clone();
        let r = quiet(move || SetSketchParams::reload_json(&d));
        let content = std::fs::read_to_string(dir.join("parameters.json")).unwrap_or_default();
        let _ = std::fs::remove_dir_all(&dir);
        let good = ok && matches!(&r, Some(Ok(p)) if same(p, &short));
        if !good {
            out(true, serde_json::json!({"kind": "two dumps", "first": "b=1.123456789012345 m=4096 a=20.000000001 q=65534", "second": "b=1.5 m=2 a=2 q=3"}),
                format!("after a long dump followed by a shorter one the file holds {:?} and reload_json gives {:?}", content, r.map(|x| x.map(|p| format!("{:?}", p)))), "Ok(second parameters)".into(), cases);
            return;
        }
    }
    let params = [(1.001f64, 4096u64, 20.0f64, 65534u64), (1.5, 1, 1.0, 0), (1.123456789012345, u64::MAX, 0.000123456789012345, u64::MAX), (2.0, 17, 1e300, 3), (1.0000000001, 1 << 40, 123456.789, 255)];
    // dump directories whose names look like files, are hidden, carry several dots or a trailing separator
    for suf in [".json", ".v2", "_b1.001", ".d/", "/.hidden", "/parameters.json", "/a.b/c"] {
        let (b, m, a, q) = params[0];
        cases += 1;
        if let Some((o, e)) = case_in(suf, b, m, a, q, None) { out(true, serde_json::json!({"dirsuffix": suf, "b": b, "m": m, "a": a, "q": q, "cut": null}), o, e, cases); return; }
        cases += 1;
        if let Some((o, e)) = case_in(suf, b, m, a, q, Some(7)) { out(true, serde_json::json!({"dirsuffix": suf, "b": b, "m": m, "a": a, "q": q, "cut": 7}), o, e, cases); return; }
    }
    for &(b, m, a, q) in &params {
        cases += 1;
        if let Some((o, e)) = case(b, m, a, q, None) { out(true, serde_json::json!({"b": b, "m": m, "a": a, "q": q, "cut": null}), o, e, cases); return; }
        cases += 1;
        if let Some((o, e)) = case(b, m, a, q, Some(usize::MAX)) { out(true, serde_json::json!({"b": b, "m": m, "a": a, "q": q, "cut": "missing"}), o, e, cases); return; }
        for n in 0..120usize {
            cases += 1;
            if let Some((o, e)) = case(b, m, a, q, Some(n)) { out(true, serde_json::json!({"b": b, "m": m, "a": a, "q": q, "cut": n}), o, e, cases); return; }
        }
    }
    out(false, serde_json::Value::Null, "no disagreement".into(), "".into(), cases);
}
