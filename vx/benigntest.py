#!/usr/bin/env python3
"""Run the checks against behaviour-preserving edits: benigntest.py <dir with benign-*.diff>.
For each diff: scratch copy of /repo + patch, then every check whose anchor files the diff touches.
exit 0 (held) and exit 2 (undecided) are acceptable outcomes; exit 1 is a false alarm to be corrected."""
import glob, json, os, re, shutil, subprocess, sys
VERIF = os.path.dirname(os.path.dirname(os.path.abspath(__file__)))
MAP = {
    "probminhash3.rs": ["C02", "C12"], "probminhash3sha.rs": ["C02", "C12"], "probminhash2.rs": ["C02", "C12", "C13"],
    "probordminhash2.rs": ["C11", "C12", "C13"], "setsketcher.rs": ["C04", "C05", "C12", "C13", "C14", "C20"],
    "superminhasher.rs": ["C04", "C05", "C12", "C13", "C14"], "superminhasher2.rs": ["C04", "C12", "C13", "C14"],
    "densminhash.rs": ["C04", "C09", "C12", "C13"], "maxvaluetrack.rs": ["C15", "C02", "C11", "C13"],
    "fyshuffle.rs": ["C17", "C02", "C04", "C13"], "invhash.rs": ["C19"], "jaccard.rs": ["C14"], "exp01.rs": ["C16", "C02"], "sig.rs": ["C18"],
}
src = sys.argv[1]
bad = 0
for df in sorted(glob.glob(os.path.join(src, "benign-*.diff"))):
    txt = open(df).read()
    files = sorted(set(os.path.basename(m) for m in re.findall(r"^\+\+\+ b/(\S+)", txt, re.M)))
    props = []
    for f in files:
        for p in MAP.get(f, []):
            if p not in props:
                props.append(p)
    d = "/tmp/verif-benign-%d" % os.getpid()
    shutil.rmtree(d, ignore_errors=True)
    subprocess.run(["rsync", "-a", "--exclude", "target", "--exclude", ".git", "--exclude", "seed_out", "/repo/", d + "/"], check=True)
    p = subprocess.run(["patch", "-p1", "-s", "-i", os.path.abspath(df)], cwd=d, capture_output=True, text=True)
    if p.returncode != 0:
        print("%s: patch does not apply" % os.path.basename(df)); shutil.rmtree(d, ignore_errors=True); continue
    res = []
    for pid in props:
        c = subprocess.run([os.path.join(VERIF, "check"), pid, "--no-evidence"], env=dict(os.environ, VERIF_REPO=d), capture_output=True, text=True)
        res.append((pid, c.returncode))
        if c.returncode == 1:
            bad += 1
            lines = [l for l in c.stdout.split("\n") if "failed obligation" in l or "VIOLATION" in l or "UNDECIDED" in l]
            print("   FALSE ALARM %s: %s" % (pid, " | ".join(l.strip()[:220] for l in lines[:3])))
        elif c.returncode == 2:
            lines = [l for l in c.stdout.split("\n") if "UNDECIDED" in l]
            print("   undecided %s: %s" % (pid, " | ".join(l.strip()[:200] for l in lines[:2])))
    shutil.rmtree(d, ignore_errors=True)
    print("%s %s -> %s" % (os.path.basename(df), files, " ".join("%s=%d" % r for r in res)))
print("benigntest: %d false alarms" % bad)
