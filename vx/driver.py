#!/usr/bin/env python3
"""./check <ID> [--tier quick|thorough] [--replay <file>]   |   ./check --setup   |   ./check --list

Exit codes: 0 property held on everything explored; 1 VIOLATION (unlisted failing obligation);
2 UNDECIDED (lost anchor, unsupported construct, rlimit, tool failure) -- never used as an alarm.
"""
import argparse
import concurrent.futures
import json
import os
import shutil
import subprocess
import sys
import time

HERE = os.path.dirname(os.path.abspath(__file__))
VERIF = os.path.dirname(HERE)
sys.path.insert(0, HERE)

import props  # noqa: E402
import verus_run  # noqa: E402
import kani_run  # noqa: E402
import replay_run  # noqa: E402

REPO = os.environ.get("VERIF_REPO", "/repo")


def load_known():
    p = os.path.join(VERIF, "known_findings.jsonl")
    out = []
    if os.path.exists(p):
        for l in open(p):
            l = l.strip()
            if l and not l.startswith("#") and not l.startswith("fixed:"):
                out.append(json.loads(l))
    return out


def match_known(known, pid, f):
    for k in known:
        if k.get("property") != pid or k.get("status") != "open":
            continue
        if k.get("obligation") != f["obligation"]:
            continue
        cc = k.get("clause_contains")
        if cc and cc not in f.get("clause", "") and cc not in f.get("at", ""):
            continue
        return k
    return None


def main():
    ap = argparse.ArgumentParser()
    ap.add_argument("pid", nargs="?")
    ap.add_argument("--tier", default=os.environ.get("VERIF_TIER", "quick"), choices=["quick", "thorough"])
    ap.add_argument("--replay")
    ap.add_argument("--setup", action="store_true")
    ap.add_argument("--list", action="store_true")
    ap.add_argument("--keep", action="store_true", help="keep the scratch directory (debugging)")
    ap.add_argument("--no-evidence", action="store_true", help="do not rewrite evidence (self-tests on scratch trees)")
    a = ap.parse_args()
    seed = int(os.environ.get("VERIF_SEED", "0") or 0)

    if a.list:
        for pid in sorted(props.PROPS):
            print(pid, props.PROPS[pid]["title"])
        return 0
    if a.setup:
        return setup()
    if not a.pid or a.pid not in props.PROPS:
        print("unknown property; use --list", file=sys.stderr)
        return 2
    pid = a.pid
    P = props.PROPS[pid]
    # checks of one property share its Kani target directory and its replay scratch copy: they take turns (checks of different
    # properties run independently; the shared replay target directory has its own lock around build + run)
    import fcntl
    os.makedirs(os.path.join(VERIF, ".cache", "locks"), exist_ok=True)
    plock = open(os.path.join(VERIF, ".cache", "locks", pid + ".lock"), "w")
    fcntl.flock(plock, fcntl.LOCK_EX)
    if a.replay:
        return replay_run.replay(pid, P, a.replay, REPO, VERIF)

    t0 = time.time()
    work = "/tmp/verif-work-%s-%d" % (pid, os.getpid())
    shutil.rmtree(work, ignore_errors=True)
    os.makedirs(work)
    try:
        rc = run_check(pid, P, a.tier, seed, work, t0, a.no_evidence)
    finally:
        if not a.keep:
            shutil.rmtree(work, ignore_errors=True)
    return rc


def run_check(pid, P, tier, seed, work, t0, no_evidence):
    known = load_known()
    # Verus' default resource limit is 10; the largest function (SuperMinHash::sketch) uses about 9 of it, so a harmless edit elsewhere in
    # the unit could push it over (=> UNDECIDED).  40 leaves headroom; a proof that needs more than that is reported as undecided.
    rlimit = P.get("rlimit_thorough" if tier == "thorough" else "rlimit_quick") or 40
    units = P.get("verus_units", [])
    results = []
    with concurrent.futures.ThreadPoolExecutor(max_workers=min(8, max(1, len(units)))) as ex:
        futs = []
        for u in units:
            tpl = os.path.join(VERIF, "units", u + ".vt")
            wd = os.path.join(work, u)
            os.makedirs(wd, exist_ok=True)
            futs.append(ex.submit(verus_run.verify_unit, u, tpl, REPO, HERE, wd, rlimit, True,
                                  P.get("verus_timeout", 900)))
        for f in futs:
            results.append(f.result())

    kres = []
    kunits = [k for k in P.get("kani_units", []) if tier == "thorough" or not k.get("thorough_only")]
    if kunits:
        kres = kani_run.run_units(pid, kunits, REPO, VERIF, tier, work)

    extra = []
    for fn in P.get("extra_checks", []):
        extra.append(fn(REPO, results, tier))

    failed = []
    undecided = []
    for r in results:
        if r.status == "failed":
            failed.extend(r.failed)
            if r.reason:
                undecided.append("%s: %s" % (r.name, r.reason))
        elif r.status == "undecided":
            undecided.append("%s: %s" % (r.name, r.reason))
    for k in kres:
        if k["status"] == "failed":
            failed.extend(k["failed"])
        elif k["status"] == "undecided":
            undecided.append("kani %s: %s" % (k["name"], k["reason"]))
    for e in extra:
        if e["status"] == "failed":
            failed.extend(e["failed"])
        elif e["status"] == "undecided":
            undecided.append(e["reason"])

    listed = []
    unlisted = []
    for f in failed:
        k = match_known(known, pid, f)
        if k:
            listed.append((k, f))
        else:
            unlisted.append(f)

    violations = 0
    replay_path = None
    witness = None
    thorough_search = None
    if unlisted:
        violations = len(unlisted)
        witness = replay_run.search(pid, P, unlisted, REPO, VERIF, seed, tier, kres)
        os.makedirs(os.path.join(VERIF, "replays"), exist_ok=True)
        replay_path = os.path.join(VERIF, "replays", "%s-%d.json" % (pid, int(time.time())))
        with open(replay_path, "w") as f:
            json.dump(dict(property=pid, failed_obligations=unlisted, witness=witness,
                           replay_cmd="./check %s --replay %s" % (pid, replay_path),
                           repo=REPO, tier=tier), f, indent=1)
    elif (tier == "thorough" or undecided or P.get("always_search")) and P.get("replay_module"):
        # undecided: a failing input on the real code still decides the property (sound: it is a real execution);
        # thorough: run the witness search anyway, as extra exploration of the real code
        thorough_search = replay_run.search(pid, P, [], REPO, VERIF, seed, tier, kres)
        if thorough_search and thorough_search.get("module_error"):
            undecided.append("witness search did not run (replay module failed to build or start): %s" % (thorough_search.get("note") or "")[-300:])
        if thorough_search and thorough_search.get("found"):
            violations = 1
            os.makedirs(os.path.join(VERIF, "replays"), exist_ok=True)
            replay_path = os.path.join(VERIF, "replays", "%s-%d.json" % (pid, int(time.time())))
            f0 = dict(obligation="%s::witness-search" % pid, function="-", kind="real code disagrees with the property statement",
                      clause=json.dumps(thorough_search.get("input"))[:300], site="replay/%s.rs" % pid, at="", rendered="")
            with open(replay_path, "w") as f:
                json.dump(dict(property=pid, failed_obligations=[f0], witness=thorough_search,
                               replay_cmd="./check %s --replay %s" % (pid, replay_path), repo=REPO, tier=tier), f, indent=1)
            witness = thorough_search

    wall = time.time() - t0
    if not no_evidence:
        write_evidence(pid, P, tier, seed, results, kres, extra, listed, unlisted, undecided, wall, thorough_search)

    for (k, f) in listed:
        print("KNOWN-FINDING: property=%s %s [%s] %s" % (pid, f["obligation"], f["clause"][:120], k.get("what", "")))
    for r in results:
        print("unit %-18s %-9s verified=%d errors=%d smt=%dms canaries=%d/%d %s" % (
            r.name, r.status, r.verified, r.errors, r.smt_ms, r.canaries_failed_as_expected, r.canaries_expected, r.reason[:300]))
    for k in kres:
        print("kani %-24s %-9s %s %s" % (k["name"], k["status"], k.get("label", ""), k.get("reason", "")[:300]))
    if violations:
        for f in unlisted[:10]:
            print("  failed obligation: %s [%s] at %s" % (f["obligation"], f["clause"][:160], f["site"]))
        suffix = ""
        if not (witness and witness.get("found")):
            suffix = " no-failing-input-found"
        print("VIOLATION property=%s replay=%s%s" % (pid, replay_path, suffix))
        return 1
    if undecided:
        for u in undecided:
            print("UNDECIDED property=%s %s" % (pid, u))
        return 2
    print("OK property=%s tier=%s wall=%.1fs" % (pid, tier, wall))
    return 0


def write_evidence(pid, P, tier, seed, results, kres, extra, listed, unlisted, undecided, wall, thorough_search):
    obligations = 0
    discharged = 0
    per_fn = []
    funcs = []
    assumed = []
    cmds = []
    rules = {}
    samples = []
    canaries = dict(expected=0, failed_as_expected=0)
    clauses = 0
    generated = {}
    for r in results:
        obligations += r.verified + r.errors
        discharged += r.verified
        per_fn.extend(dict(unit=r.name, backend="verus/z3", **f) for f in r.functions)
        funcs.extend(dict(unit=r.name, **e) for e in r.extracted)
        for x in r.assumed:
            if x not in assumed:
                assumed.append(x)
        cmds.append(r.cmd)
        for k, v in r.rule_counts.items():
            rules[k] = rules.get(k, 0) + v
        canaries["expected"] += r.canaries_expected
        canaries["failed_as_expected"] += r.canaries_failed_as_expected
        clauses += r.contract_clauses
        generated.update(r.generated)
    kani_units = []
    for k in kres:
        obligations += k.get("checks_total", 0)
        discharged += k.get("checks_ok", 0)
        cmds.append(k.get("cmd", ""))
        kani_units.append({x: k.get(x) for x in ("name", "status", "label", "bounded", "bound", "checks_total", "checks_ok", "wall_s", "harnesses", "reason")})
        for h in k.get("harnesses", []):
            funcs.extend(dict(unit=k["name"], function=fn, backend="kani/cbmc") for fn in h.get("functions", []))
    for e in extra:
        obligations += e.get("obligations", 0)
        discharged += e.get("discharged", 0)
        if e.get("cmd"):
            cmds.append(e["cmd"])
    for s in P.get("sample_obligations", []):
        samples.append(s)
    # a few real obligations of this run: contract clauses taken from the assembled text
    for r in results:
        cnt = 0
        for l in r.text.split("\n"):
            s = l.strip()
            if (s.startswith("ensures") or s.startswith("requires") or s.startswith("invariant")) and len(s) > 12 and cnt < 3:
                samples.append({"unit": r.name, "clause": s[:200]})
                cnt += 1
    for f in unlisted[:5]:
        samples.append({"failed": f["obligation"], "clause": f["clause"][:200], "site": f["site"]})
    if not samples:
        samples.append({"note": "no clause text available"})
    trusted = list(P.get("trusted_base", [])) + assumed
    level = P.get("level", "proof")
    ev = dict(
        property_id=pid, tier=tier, seed=seed, level=level,
        coverage=dict(
            obligations=obligations, discharged=discharged,
            checker_cmd=" && ".join(c for c in cmds if c) or "none",
            trusted_base=trusted,
            samples=samples,
            functions_under_contract=funcs,
            per_function=per_fn,
            contract_clauses=clauses,
            canaries=canaries,
            rewrite_rule_counts=rules,
            generated=generated,
            kani_units=kani_units,
            bounded_units=[k["name"] + ": " + str(k.get("bound")) for k in kres if k.get("bounded")],
            not_decided=P.get("not_decided", []),
            known_findings=[dict(obligation=f["obligation"], clause=f["clause"], what=k.get("what")) for (k, f) in listed],
            undecided=undecided,
            smt_ms=sum(r.smt_ms for r in results),
            thorough_witness_search=thorough_search,
            explanation=P.get("explanation", ""),
        ),
        assumptions=trusted + P.get("assumptions", []),
        wall_s=round(wall, 2),
        violations=len(unlisted),
    )
    os.makedirs(os.path.join(VERIF, "evidence"), exist_ok=True)
    with open(os.path.join(VERIF, "evidence", pid + ".json"), "w") as f:
        json.dump(ev, f, indent=1)


def setup():
    os.makedirs(os.path.join(VERIF, ".cache"), exist_ok=True)
    rc = 0
    # warm verus (first run is slow), the replay build and the kani build
    t = os.path.join("/tmp", "verif-setup-%d" % os.getpid())
    os.makedirs(t, exist_ok=True)
    try:
        with open(os.path.join(t, "w.rs"), "w") as f:
            f.write("use vstd::prelude::*;\nverus!{ proof fn t() ensures true {} }\nfn main(){}\n")
        subprocess.run([verus_run.VERUS, "w.rs"], cwd=t, capture_output=True, timeout=300)
        rc |= replay_run.warm(REPO, VERIF)
        rc |= kani_run.warm(REPO, VERIF)
    finally:
        shutil.rmtree(t, ignore_errors=True)
    print("setup done rc=%d" % rc)
    return 0


if __name__ == "__main__":
    sys.exit(main())
