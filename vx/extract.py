#!/usr/bin/env python3
"""Template expander: assembles one Verus file from
   * verbatim Verus text in a unit template (contracts, spec fns, lemmas, assumed stubs) and
   * item text cut out of /repo's current working tree and rewritten by the fixed rules R1..R12.

Template directives (lines starting with `//@`):

  //@include <file under vx/prelude>
  //@struct <src> <Name> [attrs...]              struct definition (fields made pub)
  //@trait  <src> <Name>                         crate-local trait (gets `: Sized`), followed by optional
         //@spec-items ... //@end                 extra items spliced inside the trait body
  //@implhdr <src> <Type> [trait=<T>|-] [ty=<selfty>]    emits the impl header up to `{`
  //@fn <src> <Type>::<name>|::<name> [trait=..] [ty=..] [ret=<id>] [vis=...] [subst=A:B,...] [rename=<new>]
      //@spec            lines spliced between signature and body (requires/ensures/decreases)
      //@top             lines spliced right after the body's opening brace
      //@loop <n> [opt]  lines spliced before the body brace of the n-th loop (while/for/loop, source order); opt: skipped if absent
      //@looplabel <n> <ghost iterator name>     `for x in e` -> `for x in <name>: e`
      //@before <n> "<tokens>"   lines spliced before the n-th statement starting with these tokens
      //@after  <n> "<tokens>"   ... after that statement
      //@assert <n> static|validate     how run-time assert number n is rendered (default static)
      //@floatcast <n>   the n-th `as` cast has a float operand (cast to an integer type)
      //@opassign <lvalue text> ...     expand `lv op= e` to `lv = lv op (e)` for these lvalues (floats)
      //@floatneg <name> ...            `-name` / `-self.name` (floats) -> vx_f64_neg(name)
      //@closure <n> <name> | <text>    rename `_` parameter of the n-th closure / splice return contract
      //@replace-call "<tokens>" => "<text>"   (only for macro-like forms listed in DESIGN R11)
      //@bottom          lines spliced just before the body's closing brace
      //@tailbind <name> the body's tail expression E becomes `let <name> = E;` + the //@bottom lines + `<name>`
  //@end

Everything else is copied verbatim.  Output: the assembled text and a line map
(output line -> origin) used to name failing obligations.
"""
import os
import re
import sys
import json

sys.path.insert(0, os.path.dirname(os.path.abspath(__file__)))
from rustlex import Source, tokenize, match_brackets, Tok, LexError  # noqa: E402


class ExtractError(Exception):
    """Lost anchor / unsupported construct: the check is UNDECIDED (exit 2), never an alarm."""


LOG_MACROS = {"trace", "debug", "info", "warn", "error", "println", "eprintln", "print"}


class FnRewriter:
    def __init__(self, src: Source, item, opts, sections, rule_counts, impl=None):
        self.src = src
        self.toks = src.toks
        self.match = src.match
        self.item = item
        self.opts = opts
        self.sections = sections
        self.edits = []  # (start, end, text, tag)
        self.assert_ranges = []
        self.replace_hits = {}
        self.rules = rule_counts
        self.name = item["name"]

    def rule(self, r, n=1):
        self.rules[r] = self.rules.get(r, 0) + n

    # -- helpers --
    def edit(self, start, end, text, tag="rw"):
        self.edits.append((start, end, text, tag))

    def body_range(self):
        return self.item["body_open"], self.item["body_close"]

    def stmt_starts(self):
        """token indices (inside the body, any depth) that start a statement"""
        bo, bc = self.body_range()
        res = []
        for i in range(bo + 1, bc):
            p = self.toks[i - 1]
            if p.kind == "punct" and p.text in (";", "{", "}"):
                res.append(i)
        return res

    def stmt_end(self, i):
        """index of the last token of the statement starting at token i"""
        toks = self.toks
        bo, bc = self.body_range()
        k = i
        first = toks[i].text
        while k < bc:
            t = toks[k]
            if t.kind == "punct" and t.text in ("(", "["):
                k = self.match[k] + 1
                continue
            if t.kind == "punct" and t.text == "{":
                k2 = self.match[k]
                # block-like statement ends at its closing brace unless followed by else / method chain / ;
                nxt = toks[k2 + 1]
                if first in ("if", "while", "for", "loop", "match", "unsafe") and not (nxt.kind == "id" and nxt.text == "else"):
                    if nxt.kind == "punct" and nxt.text == ";":
                        return k2 + 1
                    return k2
                k = k2 + 1
                continue
            if t.kind == "punct" and t.text == ";":
                return k
            if t.kind == "punct" and t.text == "}":
                return k - 1
            k += 1
        return bc - 1

    def find_stmt(self, n, pattern):
        ptoks = [t.text for t in tokenize(pattern)]
        cnt = 0
        for i in self.stmt_starts():
            seg = [t.text for t in self.toks[i:i + len(ptoks)]]
            if seg == ptoks:
                cnt += 1
                if cnt == n:
                    return i
        raise ExtractError("lost anchor: statement #%d starting with `%s` in %s (%s)" % (n, pattern, self.name, self.src.path))

    def loops(self):
        bo, bc = self.body_range()
        res = []
        i = bo + 1
        while i < bc:
            t = self.toks[i]
            if t.kind == "id" and t.text in ("while", "for", "loop"):
                # `for` in `for<'a>` bounds does not occur inside bodies here
                k = i + 1
                while k < bc:
                    tk = self.toks[k]
                    if tk.kind == "punct" and tk.text in ("(", "["):
                        k = self.match[k] + 1
                        continue
                    if tk.kind == "punct" and tk.text == "{":
                        break
                    k += 1
                res.append((i, k))
            i += 1
        return res

    # -- rules --
    def r1_drop_logging(self):
        toks = self.toks
        for i in self.stmt_starts():
            k = i
            if toks[k].text == "log" and toks[k + 1].text == "::":
                k += 2
            if toks[k].kind == "id" and toks[k].text in LOG_MACROS and toks[k + 1].text == "!" and toks[k + 2].text == "(":
                close = self.match[k + 2]
                args = toks[k + 3:close]
                for a_i, a in enumerate(args):
                    if a.kind == "punct" and a.text in ("=", "+=", "-=", "*=", "/="):
                        raise ExtractError("unsupported: assignment inside logging macro in %s" % self.name)
                    if a.kind == "id" and a.text == "mut":
                        raise ExtractError("unsupported: &mut inside logging macro in %s" % self.name)
                end = close
                if toks[close + 1].text == ";":
                    end = close + 1
                self.edit(toks[i].start, toks[end].end, "", "R1")
                self.rule("R1")

    def split_args(self, open_idx):
        """top-level comma split of the tokens inside (...) starting at open_idx -> list of (first_tok, last_tok)"""
        close = self.match[open_idx]
        parts = []
        cur = open_idx + 1
        k = open_idx + 1
        while k < close:
            t = self.toks[k]
            if t.kind == "punct" and t.text in ("(", "[", "{"):
                k = self.match[k] + 1
                continue
            if t.kind == "punct" and t.text == ",":
                parts.append((cur, k - 1))
                cur = k + 1
            k += 1
        if cur <= close - 1:
            parts.append((cur, close - 1))
        return parts

    def text_of(self, a, b):
        return self.src.text[self.toks[a].start:self.toks[b].end]

    def text_replaced(self, a, b):
        """source text of tokens a..b with the //@replace-call patterns applied (used for conditions of run-time asserts, which R4 re-renders)"""
        toks = self.toks
        out = []
        pos = self.toks[a].start
        i = a
        pats = [([x.text for x in tokenize(ent[0])], ent[1], k) for k, ent in enumerate(self.opts.get("replace", []))]
        while i <= b:
            hit = None
            for pt, rep, k in pats:
                if i + len(pt) - 1 <= b and [x.text for x in toks[i:i + len(pt)]] == pt:
                    hit = (pt, rep, k)
                    break
            if hit:
                out.append(self.src.text[pos:toks[i].start])
                out.append(hit[1])
                pos = toks[i + len(hit[0]) - 1].end
                self.replace_hits[hit[2]] = self.replace_hits.get(hit[2], 0) + 1
                self.rule("R11")
                i += len(hit[0])
            else:
                i += 1
        out.append(self.src.text[pos:toks[b].end])
        return "".join(out)

    def r4_asserts(self):
        toks = self.toks
        modes = self.opts.get("assert_modes", {})
        n = 0
        bo, bc = self.body_range()
        for i in range(bo + 1, bc):
            t = toks[i]
            if t.kind == "id" and t.text in ("assert", "assert_eq", "assert_ne") and toks[i + 1].text == "!" and toks[i + 2].text == "(":
                n += 1
                mode = modes.get(n, "static")
                close = self.match[i + 2]
                parts = self.split_args(i + 2)
                self.assert_ranges.append((i, close))
                if t.text == "assert":
                    cond = self.text_replaced(*parts[0])
                elif t.text == "assert_eq":
                    cond = "(%s) == (%s)" % (self.text_replaced(*parts[0]), self.text_replaced(*parts[1]))
                else:
                    cond = "(%s) != (%s)" % (self.text_replaced(*parts[0]), self.text_replaced(*parts[1]))
                end = close
                semi = ""
                if toks[close + 1].text == ";":
                    end = close + 1
                    semi = ""
                if mode == "static":
                    rep = "let vx_assert_%d = %s; assert(vx_assert_%d);" % (n, cond, n)
                elif mode == "validate":
                    rep = "if !(%s) { vpanic(); }" % cond
                elif mode == "drop":
                    rep = ""
                else:
                    raise ExtractError("bad assert mode %s" % mode)
                self.edit(t.start, toks[end].end, rep + semi, "R4")
                self.rule("R4")
        for k in modes:
            if k > n:
                raise ExtractError("lost anchor: assert #%d in %s" % (k, self.name))
        # panic!/std::panic! -> vpanic()
        for i in range(bo + 1, bc):
            t = toks[i]
            if t.kind == "id" and t.text == "panic" and toks[i + 1].text == "!" and toks[i + 2].text == "(":
                st = i
                if toks[i - 1].text == "::" and toks[i - 2].text == "std":
                    st = i - 2
                close = self.match[i + 2]
                self.edit(toks[st].start, toks[close].end, "vpanic()", "R4")
                self.rule("R4")

    def operand_start(self, j):
        """toks[j] is the last token of a unary-level operand; return index of its first token."""
        toks = self.toks
        k = j
        while True:
            t = toks[k]
            if t.kind == "punct" and t.text in (")", "]"):
                k = self.match[k]
                p = toks[k - 1]
                if p.kind == "id" and p.text not in ("if", "while", "match", "return", "in", "as", "let", "else"):
                    k -= 1
                    continue_chain = True
                elif p.kind == "punct" and p.text in (")", "]"):
                    k -= 1
                    continue
                elif p.kind == "punct" and p.text == ">" and toks[k].text == "(":
                    # turbofish call f::<T>(..)
                    d = 0
                    q = k - 1
                    while q > 0:
                        if toks[q].text == ">":
                            d += 1
                        elif toks[q].text == "<":
                            d -= 1
                            if d == 0:
                                break
                        q -= 1
                    k = q - 1  # '::'
                    if toks[k].text == "::":
                        k -= 1
                    continue_chain = True
                else:
                    return self._with_unary(k)
            elif t.kind in ("id", "num", "str", "char"):
                continue_chain = True
            else:
                raise ExtractError("unsupported cast operand near line %d in %s" % (t.line, self.name))
            # k is at an ident/num; look for `.`/`::` chain before it
            p = toks[k - 1]
            if p.kind == "punct" and p.text in (".", "::"):
                k -= 2
                continue
            return self._with_unary(k)

    def _with_unary(self, k):
        toks = self.toks
        p = toks[k - 1]
        if p.kind == "punct" and p.text in ("-", "!", "*", "&"):
            pp = toks[k - 2]
            if not (pp.kind in ("id", "num") or (pp.kind == "punct" and pp.text in (")", "]"))):
                return k - 1
        return k

    def r5_casts(self):
        toks = self.toks
        bo, bc = self.body_range()
        floatcasts = self.opts.get("floatcasts", set())
        n = 0
        # innermost-first is not needed: nested casts produce nested, non-overlapping insert edits
        for i in range(bo + 1, bc):
            t = toks[i]
            if t.kind == "id" and t.text == "as" and toks[i + 1].kind == "id":
                n += 1
                ty = toks[i + 1].text
                if ty in ("f64", "f32"):
                    fn = "vx_as_%s" % ty
                elif n in floatcasts:
                    fn = "vx_float_as_%s" % ty
                else:
                    continue
                s = self.operand_start(i - 1)
                self.edit(toks[s].start, toks[s].start, fn + "(", "R5")
                self.edit(toks[i - 1].end, toks[i + 1].end, ")", "R5")
                self.rule("R5")
        for k in floatcasts:
            if k > n:
                raise ExtractError("lost anchor: cast #%d in %s" % (k, self.name))

    def r12_opassign(self):
        lvs = self.opts.get("opassign", [])
        if not lvs:
            return
        toks = self.toks
        lvt = [[x.text for x in tokenize(lv)] for lv in lvs]
        for i in self.stmt_starts():
            for pt in lvt:
                seg = [x.text for x in toks[i:i + len(pt)]]
                if seg == pt and toks[i + len(pt)].kind == "punct" and toks[i + len(pt)].text in ("+=", "-=", "*=", "/="):
                    op = toks[i + len(pt)]
                    end = self.stmt_end(i)
                    if toks[end].text != ";":
                        raise ExtractError("unsupported op-assign form in %s" % self.name)
                    lv = self.text_of(i, i + len(pt) - 1)
                    self.edit(op.start, op.end, "= %s %s (" % (lv, op.text[0]), "R12")
                    self.edit(toks[end].start, toks[end].start, ")", "R12")
                    self.rule("R12")

    def r12b_floatneg(self):
        """`-x` / `-self.x` for the float names listed by //@floatneg -> vx_f64_neg(x) (Verus has no unary minus on floats)"""
        names = self.opts.get("floatneg", [])
        if not names:
            return
        toks = self.toks
        bo, bc = self.body_range()
        for i in range(bo + 1, bc):
            t = toks[i]
            if not (t.kind == "punct" and t.text == "-"):
                continue
            p = toks[i - 1]
            unary = (p.kind == "punct" and p.text not in (")", "]")) or (p.kind == "id" and p.text in ("return", "in", "if", "while", "match", "else"))
            if not unary:
                continue
            j = i + 1
            if toks[j].text == "self" and toks[j + 1].text == ".":
                j += 2
            if toks[j].kind == "id" and toks[j].text in names and toks[j + 1].text not in (".", "(", "[", "::"):
                self.edit(t.start, t.end, "vx_f64_neg(", "R12")
                self.edit(toks[j].end, toks[j].end, ")", "R12")
                self.rule("R12")

    def r6_closures(self):
        cl = self.opts.get("closures", {})
        toks = self.toks
        bo, bc = self.body_range()
        n = 0
        i = bo + 1
        while i < bc:
            t = toks[i]
            p = toks[i - 1]
            if t.kind == "punct" and t.text in ("|", "||") and (p.kind == "punct" and p.text in ("(", ",", "=") or (p.kind == "id" and p.text in ("move", "return"))):
                n += 1
                if t.text == "||":
                    close = i
                else:
                    close = i + 1
                    while toks[close].text != "|":
                        close += 1
                spec = cl.get(n)
                for q in range(i + 1, close):
                    if toks[q].kind == "id" and toks[q].text == "_":
                        nm = (spec or {}).get("name", "vx_unused_%d" % n)
                        self.edit(toks[q].start, toks[q].end, nm, "R6")
                        self.rule("R6")
                if spec and spec.get("contract"):
                    # closure body: if next token is `{` keep, else wrap expression up to the closing `)` of the call
                    nb = close + 1
                    if toks[nb].text == "{":
                        self.edit(toks[close].end, toks[close].end, " " + spec["contract"] + " ", "R6")
                    else:
                        # expression body extends to the matching ')' of the enclosing call
                        # find enclosing open paren
                        q = i - 1
                        depth = 0
                        while q > bo:
                            if toks[q].kind == "punct" and toks[q].text in (")", "]", "}"):
                                q = self.match[q]
                            elif toks[q].kind == "punct" and toks[q].text == "(":
                                break
                            q -= 1
                        endp = self.match[q]
                        self.edit(toks[close].end, toks[close].end, " " + spec["contract"] + " { ", "R6")
                        self.edit(toks[endp].start, toks[endp].start, " }", "R6")
                    self.rule("R6")
                i = close + 1
                continue
            i += 1
        for k in cl:
            if k > n:
                raise ExtractError("lost anchor: closure #%d in %s" % (k, self.name))

    def r13_mapcollect(self):
        """`(a..b)[.into_iter()].map(f).collect[::<..>]()` -> `vx_map_collect_<ty>(a, b, f)` (prelude fn with a verified body)"""
        mc = self.opts.get("mapcollect", {})
        if not mc:
            return
        toks = self.toks
        bo, bc = self.body_range()
        n = 0
        for i in range(bo + 1, bc):
            if toks[i].text != "(":
                continue
            c = self.match[i]
            # a range at top level of the parens?
            dd = None
            k = i + 1
            while k < c:
                if toks[k].kind == "punct" and toks[k].text in ("(", "[", "{"):
                    k = self.match[k] + 1
                    continue
                if toks[k].kind == "punct" and toks[k].text == "..":
                    dd = k
                    break
                k += 1
            if dd is None:
                continue
            q = c + 1
            if toks[q].text == "." and toks[q + 1].text == "into_iter" and toks[q + 2].text == "(":
                q = self.match[q + 2] + 1
            if not (toks[q].text == "." and toks[q + 1].text == "map" and toks[q + 2].text == "("):
                continue
            mo = q + 2
            mcl = self.match[mo]
            if not (toks[mcl + 1].text == "." and toks[mcl + 2].text == "collect"):
                continue
            e = mcl + 3
            if toks[e].text == "::":
                e = self.src._skip_angle(e + 1)
            if toks[e].text != "(":
                continue
            e = self.match[e]
            n += 1
            ty = mc.get(n)
            if not ty:
                continue
            self.edit(toks[i].start, toks[i].end, "vx_map_collect_%s(" % ty, "R13")
            self.edit(toks[dd].start, toks[dd].end, ", ", "R13")
            self.edit(toks[c].start, toks[mo].end, ", ", "R13")
            self.edit(toks[mcl].end, toks[e].end, "", "R13")
            self.rule("R13")
        for k in mc:
            if k > n:
                raise ExtractError("lost anchor: map/collect #%d in %s" % (k, self.name))

    def r13b_itermapcollect(self):
        """`e.iter().map(f).collect[::<..>]()` -> `vx_iter_map_collect(&e, f)` (prelude fn with a verified body)"""
        want = self.opts.get("itermapcollect", set())
        if not want:
            return
        toks = self.toks
        bo, bc = self.body_range()
        n = 0
        for i in range(bo + 1, bc - 6):
            if toks[i].text == "." and toks[i + 1].text == "iter" and toks[i + 2].text == "(" and toks[i + 3].text == ")" \
                    and toks[i + 4].text == "." and toks[i + 5].text == "map" and toks[i + 6].text == "(":
                mo = i + 6
                mcl = self.match[mo]
                if not (toks[mcl + 1].text == "." and toks[mcl + 2].text == "collect"):
                    continue
                e = mcl + 3
                if toks[e].text == "::":
                    e = self.src._skip_angle(e + 1)
                if toks[e].text != "(":
                    continue
                e = self.match[e]
                n += 1
                if n not in want:
                    continue
                s0 = self.operand_start(i - 1)
                self.edit(toks[s0].start, toks[s0].start, "vx_iter_map_collect(&", "R13")
                self.edit(toks[i].start, toks[mo].end, ", ", "R13")
                self.edit(toks[mcl].end, toks[e].end, "", "R13")
                self.rule("R13")
        for k in want:
            if k > n:
                raise ExtractError("lost anchor: iter/map/collect #%d in %s" % (k, self.name))

    def r15_enumerate(self):
        """`for (i, x) in e.iter().enumerate() {` -> `for i in 0..e.len() { let x = &e[i];`"""
        want = self.opts.get("enumerate", set())
        if not want:
            return
        toks = self.toks
        loops = self.loops()
        for n in want:
            if n > len(loops):
                raise ExtractError("lost anchor: loop #%d in %s" % (n, self.name))
            kw, lb = loops[n - 1]
            hdr = toks[kw + 1:lb]
            texts = [t.text for t in hdr]
            # ( i , x ) in EXPR . iter ( ) . enumerate ( )
            if not (toks[kw].text == "for" and texts[0] == "(" and texts[2] == "," and texts[4] == ")" and texts[5] == "in"
                    and texts[-8:] == [".", "iter", "(", ")", ".", "enumerate", "(", ")"]):
                raise ExtractError("lost anchor: loop #%d of %s is not `for (i, x) in e.iter().enumerate()`" % (n, self.name))
            iv, xv = texts[1], texts[3]
            e_first = kw + 1 + 6
            e_last = lb - 9
            etext = self.text_of(e_first, e_last)
            self.edit(toks[kw + 1].start, toks[lb - 1].end, "%s in 0..%s.len()" % (iv, etext), "R15")
            self.edit(toks[lb].end, toks[lb].end, " let %s = &%s[%s];" % (xv, etext, iv), "R15")
            self.rule("R15")

    def r15b_forentries(self):
        """`for PAT in v {` with v a local holding a Vec (entries of a map in iteration order) -> `for vx_eN in 0..v.len() { let PAT = v[vx_eN];`"""
        want = self.opts.get("forentries", set())
        if not want:
            return
        toks = self.toks
        loops = self.loops()
        for n in want:
            if n > len(loops):
                raise ExtractError("lost anchor: loop #%d in %s" % (n, self.name))
            kw, lb = loops[n - 1]
            hdr = toks[kw + 1:lb]
            texts = [t.text for t in hdr]
            if not (toks[kw].text == "for" and len(texts) >= 3 and texts[-2] == "in" and hdr[-1].kind == "id"):
                raise ExtractError("lost anchor: loop #%d of %s is not `for PAT in <local>`" % (n, self.name))
            vec = texts[-1]
            pat = self.text_of(kw + 1, lb - 3)
            self.edit(toks[kw + 1].start, toks[lb - 1].end, "vx_e%d in 0..%s.len()" % (n, vec), "R15")
            self.edit(toks[lb].end, toks[lb].end, " let %s = %s%s[vx_e%d];" % (pat, "&" if n in self.opts.get("forentries_ref", set()) else "", vec, n), "R15")
            self.rule("R15")

    def r8_signature(self):
        toks = self.toks
        it = self.item
        s, bo = it["start"], it["body_open"]
        # drop `?Sized` bounds: `+ ?Sized` or `?Sized +`
        for i in range(s, bo):
            if toks[i].text == "?" and toks[i + 1].text == "Sized":
                if toks[i - 1].text == "+":
                    self.edit(toks[i - 1].start, toks[i + 1].end, "", "R8")
                elif toks[i + 2].text == "+":
                    self.edit(toks[i].start, toks[i + 2].end, "", "R8")
                else:
                    self.edit(toks[i].start, toks[i + 1].end, "", "R8")
                self.rule("R8")
        # `impl Trait` argument types -> named generic
        k = 0
        for i in range(s, bo):
            if toks[i].kind == "id" and toks[i].text == "impl":
                # type extends to ',' or ')' at depth 0
                q = i + 1
                depth = 0
                while True:
                    tx = toks[q].text
                    if tx in ("<",):
                        depth += 1
                    elif tx == ">":
                        depth -= 1
                    elif tx in (",", ")") and depth == 0:
                        break
                    q += 1
                bound = self.text_of(i + 1, q - 1)
                k += 1
                gname = "VxI%d" % k
                self.edit(toks[i].start, toks[q - 1].end, gname, "R8")
                # add generic parameter after fn name
                nm = s + 1
                if toks[nm + 1].text == "<":
                    self.edit(toks[nm + 1].end, toks[nm + 1].end, "%s: %s, " % (gname, bound), "R8")
                else:
                    self.edit(toks[nm].end, toks[nm].end, "<%s: %s>" % (gname, bound), "R8")
                self.rule("R8")
        # return value naming
        ret = self.opts.get("ret")
        if ret:
            # find '->' at depth 0 between params and body
            k = s
            arrow = None
            while k < bo:
                if toks[k].kind == "punct" and toks[k].text in ("(", "["):
                    k = self.match[k] + 1
                    continue
                if toks[k].text == "->":
                    arrow = k
                    break
                k += 1
            if arrow is None:
                raise ExtractError("lost anchor: return type of %s" % self.name)
            q = arrow + 1
            depth = 0
            while q < bo:
                tx = toks[q].text
                if toks[q].kind == "punct" and tx == "<":
                    depth += 1
                elif toks[q].kind == "punct" and tx == ">":
                    depth -= 1
                elif toks[q].kind == "punct" and tx == ">>":
                    depth -= 2
                elif toks[q].kind == "id" and tx == "where" and depth == 0:
                    break
                q += 1
            self.edit(toks[arrow + 1].start, toks[arrow + 1].start, "(%s: " % ret, "ret")
            self.edit(toks[q - 1].end, toks[q - 1].end, ")", "ret")
        rename = self.opts.get("rename")
        if rename:
            self.edit(toks[s + 1].start, toks[s + 1].end, rename, "rename")

    def subst(self):
        sub = self.opts.get("subst", {})
        if not sub:
            return
        it = self.item
        for i in range(it["start"], it["end"] + 1):
            t = self.toks[i]
            if t.kind == "id" and t.text in sub and self.toks[i - 1].text != ".":
                self.edit(t.start, t.end, sub[t.text], "R9")
                self.rule("R9")

    def replace_calls(self):
        for k, ent in enumerate(self.opts.get("replace", [])):
            pat, rep = ent[0], ent[1]
            optional = len(ent) > 2 and ent[2]
            pt = [x.text for x in tokenize(pat)]
            bo, bc = self.body_range()
            hit = self.replace_hits.get(k, 0)          # occurrences inside run-time asserts were rendered by R4
            for i in range(bo + 1, bc):
                if any(a <= i <= c for (a, c) in self.assert_ranges):
                    continue
                seg = [x.text for x in self.toks[i:i + len(pt)]]
                if seg == pt:
                    hit += 1
                    self.edit(self.toks[i].start, self.toks[i + len(pt) - 1].end, rep, "R11")
                    self.rule("R11")
            if hit == 0 and not optional:
                raise ExtractError("lost anchor: `%s` in %s" % (pat, self.name))

    def r11_anyhow(self):
        toks = self.toks
        bo, bc = self.body_range()
        # "literal".to_string() -> vx_str_to_string("literal")
        for i in range(bo + 1, bc - 4):
            if toks[i].kind == "str" and toks[i + 1].text == "." and toks[i + 2].text == "to_string" and toks[i + 3].text == "(" and toks[i + 4].text == ")":
                self.edit(toks[i].start, toks[i].start, "vx_str_to_string(", "R11")
                self.edit(toks[i].end, toks[i + 4].end, ")", "R11")
                self.rule("R11")
        for i in range(bo + 1, bc):
            if toks[i].kind == "id" and toks[i].text == "anyhow" and toks[i + 1].text == "!" and toks[i + 2].text == "(":
                st = i
                if toks[i - 1].text == "::" and toks[i - 2].text == "anyhow":
                    st = i - 2
                self.edit(toks[st].start, toks[self.match[i + 2]].end, "anyhow::vx_error()", "R11")
                self.rule("R11")

    def drop_attrs_in_body(self):
        toks = self.toks
        bo, bc = self.body_range()
        for i in range(bo + 1, bc):
            if toks[i].text == "#" and toks[i + 1].text == "[" and toks[i + 2].text in ("allow", "inline"):
                self.edit(toks[i].start, toks[self.match[i + 1]].end, "", "R8")

    def r16_tailbind(self):
        """R16: the body's tail expression `E` becomes `let <name> = E; <//@bottom lines> <name>` (same value, same order of evaluation)"""
        name = self.opts.get("tailbind")
        if not name:
            return
        toks = self.toks
        bo, bc = self.body_range()
        # last statement start at depth 1
        i = None
        k = bo + 1
        while k < bc:
            p = toks[k - 1]
            if p.kind == "punct" and p.text in (";", "{", "}"):
                i = k
            t = toks[k]
            if t.kind == "punct" and t.text in ("(", "[", "{"):
                k = self.match[k] + 1
                continue
            k += 1
        if i is None or toks[bc - 1].text in (";", "}"):
            raise ExtractError("lost anchor: tail expression of %s" % self.name)
        self.edit(toks[i].start, toks[i].start, "let %s = " % name, "R16")
        self.edit(toks[bc - 1].end, toks[bc - 1].end, ";", "R16")
        self.rule("R16")
        for sec in self.sections:
            if sec["kind"] == "bottom":
                sec["lines"] = list(sec["lines"]) + [name]
                break
        else:
            self.sections.append(dict(kind="bottom", lines=[name], label="bottom"))

    def splice_sections(self):
        toks = self.toks
        bo, bc = self.body_range()
        loops = None
        for sec in self.sections:
            kind = sec["kind"]
            text = "\n" + "\n".join(sec["lines"]) + "\n"
            tag = "contract:%s:%s" % (self.name, sec["label"])
            if kind == "spec":
                self.edit(toks[bo].start, toks[bo].start, text, tag)
            elif kind == "top":
                self.edit(toks[bo].end, toks[bo].end, text, tag)
            elif kind == "bottom":
                self.edit(toks[bc].start, toks[bc].start, text, tag)
            elif kind == "loop":
                if loops is None:
                    loops = self.loops()
                n = sec["n"]
                if n > len(loops):
                    if sec.get("optional"):
                        continue
                    raise ExtractError("lost anchor: loop #%d in %s" % (n, self.name))
                kw, lb = loops[n - 1]
                self.edit(toks[lb].start, toks[lb].start, text, tag)
            elif kind == "looplabel":
                if loops is None:
                    loops = self.loops()
                n = sec["n"]
                if n > len(loops):
                    raise ExtractError("lost anchor: loop #%d in %s" % (n, self.name))
                kw, lb = loops[n - 1]
                if toks[kw].text != "for":
                    raise ExtractError("lost anchor: loop #%d in %s is not a for loop" % (n, self.name))
                q = kw + 1
                while not (toks[q].kind == "id" and toks[q].text == "in"):
                    q += 1
                self.edit(toks[q].end, toks[q].end, " %s:" % sec["name"], tag)
            elif kind in ("before", "after"):
                i = self.find_stmt(sec["n"], sec["pattern"])
                if kind == "before":
                    self.edit(toks[i].start, toks[i].start, text, tag)
                else:
                    e = self.stmt_end(i)
                    self.edit(toks[e].end, toks[e].end, text, tag)
            else:
                raise ExtractError("unknown section %s" % kind)

    _canary_n = 0

    @staticmethod
    def canary_id():
        FnRewriter._canary_n += 1
        return FnRewriter._canary_n

    def canaries(self):
        toks = self.toks
        bo, bc = self.body_range()
        # each canary is an assertion about its own uninterpreted proposition: it cannot be proved unless the context is contradictory,
        # and (unlike `assert(false)`) a canary that fails does not make the code after it vacuous -- so canaries are independent even
        # in functions verified without loop isolation
        self.edit(toks[bo].end, toks[bo].end, "\nassert(vx_canary(%d)); // VX-CANARY entry of %s\n" % (FnRewriter.canary_id(), self.name), "canary")
        for n, (kw, lb) in enumerate(self.loops()):
            self.edit(toks[lb].end, toks[lb].end, "\nassert(vx_canary(%d)); // VX-CANARY body of loop %d of %s\n" % (FnRewriter.canary_id(), n + 1, self.name), "canary")

    def run(self):
        if self.opts.get("canary"):
            self.canaries()
        self.r8_signature()
        self.r1_drop_logging()
        self.r4_asserts()
        self.r5_casts()
        self.r12_opassign()
        self.r12b_floatneg()
        self.r6_closures()
        self.r13_mapcollect()
        self.r13b_itermapcollect()
        self.r15_enumerate()
        self.r15b_forentries()
        self.subst()
        self.replace_calls()
        self.r11_anyhow()
        self.drop_attrs_in_body()
        self.r16_tailbind()
        self.splice_sections()
        return self.render(self.toks[self.item["start"]].start, self.toks[self.item["end"]].end)

    def render(self, lo, hi):
        """apply edits to src.text[lo:hi]; return list of (text, origin) pieces"""
        text = self.src.text
        # drop edits fully contained in a deleted range (e.g. casts inside dropped logging)
        dels = [(s, e) for (s, e, r, tg) in self.edits if e > s and (r == "" or tg == "R11")]
        edits = []
        for (s, e, r, tg) in self.edits:
            inside = any(ds <= s and e <= de and not (s == ds and e == de) and not (s == e and (s == ds or s == de)) for (ds, de) in dels)
            if inside:
                continue
            edits.append((s, e, r, tg))
        def prio(tg):
            if tg.startswith("contract:"):
                return 0 if ":before" in tg else 2
            return 1
        edits.sort(key=lambda x: (x[0], 0 if x[0] == x[1] else 1, prio(x[3]) if x[0] == x[1] else 0, x[1]))
        pieces = []
        cur = lo
        for (s, e, r, tg) in edits:
            if s < cur:
                if e <= cur and s == e:
                    # insertion at a point already passed (only possible at equal offsets): append
                    pieces.append((r, ("ins", tg)))
                    continue
                raise ExtractError("overlapping rewrites in %s (%s)" % (self.name, tg))
            if s > cur:
                pieces.append((text[cur:s], ("src", cur)))
            if r:
                pieces.append((r, ("ins", tg)))
            cur = e
        if cur < hi:
            pieces.append((text[cur:hi], ("src", cur)))
        return pieces


def line_of(text, off):
    return text.count("\n", 0, off) + 1


class Assembler:
    def __init__(self, repo, vxdir, canary=False):
        self.repo = repo
        self.vxdir = vxdir
        self.canary = canary
        self.sources = {}
        self.out = []       # list of (line_text, origin)
        self.rule_counts = {}
        self.fn_ranges = []  # (first_out_line, last_out_line, display_name, src_path, src_line)
        self.struct_fields = {}  # struct name -> [field names]
        self.extracted = []  # names of functions under contract (extracted from the repo)

    def source(self, rel):
        if rel not in self.sources:
            p = os.path.join(self.repo, rel)
            with open(p) as f:
                self.sources[rel] = Source(rel, f.read())
        return self.sources[rel]

    def emit_pieces(self, pieces, src, default_origin=None):
        """pieces: list of (text, origin).  Split into lines and append to self.out."""
        buf = ""
        buf_origin = None
        for (txt, org) in pieces:
            pos = 0
            while True:
                nl = txt.find("\n", pos)
                seg = txt[pos:] if nl < 0 else txt[pos:nl]
                if seg.strip() and (buf_origin is None or (buf_origin[0] == "ins" and org[0] == "src" and not buf.strip())):
                    if org[0] == "src":
                        buf_origin = ("src", src.path, line_of(src.text, org[1] + pos))
                    else:
                        buf_origin = org
                elif seg.strip() and org[0] == "ins" and buf_origin and buf_origin[0] == "src":
                    pass
                buf += seg
                if nl < 0:
                    break
                self.out.append((buf, buf_origin or default_origin))
                buf = ""
                buf_origin = None
                pos = nl + 1
        if buf:
            self.out.append((buf, buf_origin or default_origin))

    def emit_verbatim(self, line, origin):
        self.out.append((line, origin))

    # ---- directive handlers ----
    def do_struct(self, args):
        src = self.source(args[0])
        it = src.find_struct(args[1])
        toks = src.toks
        rw = FnRewriter(src, it, {}, [], self.rule_counts)
        fields = []
        # fields: pub-ify; record names
        if it["body_open"] is not None and toks[it["body_open"]].text == "{":
            i = it["body_open"] + 1
            while i < it["body_close"]:
                t = toks[i]
                if t.text == "#" and toks[i + 1].text == "[":
                    e = src.match[i + 1]
                    rw.edit(t.start, toks[e].end, "", "R8")
                    i = e + 1
                    continue
                if t.kind == "id" and t.text == "pub":
                    if toks[i + 1].text == "(":
                        e = src.match[i + 1]
                        rw.edit(t.start, toks[e].end, "", "R3")
                        i = e + 1
                    else:
                        rw.edit(t.start, t.end, "", "R3")
                        i += 1
                    continue
                if t.kind == "id" and toks[i + 1].text == ":":
                    fields.append(t.text)
                    rw.edit(t.start, t.start, "pub ", "R3")
                    rw.rule("R3")
                    # skip the type up to ',' at depth 0
                    q = i + 2
                    depth = 0
                    while q < it["body_close"]:
                        tx = toks[q].text
                        if toks[q].kind == "punct" and tx in ("(", "["):
                            q = src.match[q]
                        elif tx == "<":
                            depth += 1
                        elif tx == ">":
                            depth -= 1
                        elif tx == ">>":
                            depth -= 2
                        elif tx == "," and depth == 0:
                            break
                        q += 1
                    i = q + 1
                    continue
                i += 1
        self.struct_fields[args[1]] = fields
        # generics -> reject_recursive_types
        attrs = []
        k = it["start"] + 2
        if toks[k].text == "<":
            depth = 0
            q = k
            expect_name = True
            while True:
                tx = toks[q].text
                if tx == "<":
                    depth += 1
                    if depth == 1:
                        expect_name = True
                elif tx == ">":
                    depth -= 1
                    if depth == 0:
                        break
                elif tx == "," and depth == 1:
                    expect_name = True
                elif toks[q].kind == "id" and expect_name and depth == 1:
                    attrs.append("#[verifier::reject_recursive_types(%s)]" % tx)
                    self.rule_counts["R10"] = self.rule_counts.get("R10", 0) + 1
                    expect_name = False
                elif toks[q].kind == "life":
                    expect_name = False
                q += 1
        for a in args[2:]:
            if a.startswith("retype="):
                # retype=<field>:<Type>  -- a dependency type for which the prelude has a stub under another name
                for pair in a[len("retype="):].split(","):
                    fname, newty = pair.split(":")
                    i = it["body_open"] + 1
                    done = False
                    while i < it["body_close"]:
                        if toks[i].kind == "id" and toks[i].text == fname and toks[i + 1].text == ":":
                            q = i + 2
                            depth = 0
                            while q < it["body_close"]:
                                tx = toks[q].text
                                if tx == "<":
                                    depth += 1
                                elif tx == ">":
                                    depth -= 1
                                elif tx == ">>":
                                    depth -= 2
                                elif tx == "," and depth == 0:
                                    break
                                q += 1
                            rw.edit(toks[i + 2].start, toks[q - 1].end, newty, "R11")
                            self.rule_counts["R11"] = self.rule_counts.get("R11", 0) + 1
                            done = True
                            break
                        i += 1
                    if not done:
                        raise ExtractError("lost anchor: field %s of struct %s" % (fname, args[1]))
                continue
            if a == "pad":
                # R10b: a struct whose fields are all floats gets no typing invariant for them in Verus' encoding
                # (has_type of a float field is then unprovable); an unused integer field restores it.
                rw.edit(toks[it["body_close"]].start, toks[it["body_close"]].start, "    pub vx_pad: u8,\n", "R10b")
                self.rule_counts["R10b"] = self.rule_counts.get("R10b", 0) + 1
                continue
            attrs.append(a)
        for a in attrs:
            self.emit_verbatim(a, ("ins", "R10"))
        pieces = rw.render(toks[it["start"]].start, toks[it["end"]].end)
        pieces.insert(0, ("pub ", ("ins", "R3")))
        self.emit_pieces(pieces, src)

    def do_trait(self, args, extra_lines):
        src = self.source(args[0])
        it = src.find_trait(args[1])
        toks = src.toks
        rw = FnRewriter(src, it, {}, [], self.rule_counts)
        nm = toks[it["start"] + 1]
        k = it["start"] + 2
        if toks[k].text == ":":
            rw.edit(toks[k].end, toks[k].end, " Sized +", "R7")
        else:
            rw.edit(nm.end, nm.end, ": Sized", "R7")
        self.rule_counts["R7"] = self.rule_counts.get("R7", 0) + 1
        if extra_lines:
            rw.edit(toks[it["body_close"]].start, toks[it["body_close"]].start, "\n" + "\n".join(extra_lines) + "\n", "contract:trait:%s" % args[1])
        pieces = rw.render(toks[it["start"]].start, toks[it["end"]].end)
        pieces.insert(0, ("pub ", ("ins", "R3")))
        self.emit_pieces(pieces, src)

    def do_implhdr(self, args):
        src = self.source(args[0])
        kw = dict(a.split("=", 1) for a in args[2:] if "=" in a)
        impls = src.find_impls(args[1], kw.get("trait", "-"), kw.get("ty"))
        if "has" in kw:
            impls = [im for im in impls if any(f["name"] == kw["has"] for f in src.fns_in_impl(im))]
        if len(impls) != 1:
            raise ExtractError("lost anchor: impl %s (%s): %d matches" % (args[1], kw, len(impls)))
        it = impls[0]
        toks = src.toks
        txt = src.text[toks[it["start"]].start:toks[it["body_open"]].end]
        txt = txt.replace("+ ?Sized", "").replace("?Sized +", "")
        self.emit_pieces([(txt, ("src", toks[it["start"]].start))], src)

    def do_fn(self, args, sections, opts):
        src = self.source(args[0])
        spec = args[1]
        kw = dict(a.split("=", 1) for a in args[2:] if "=" in a)
        if spec.startswith("::"):
            it = src.find_free_fn(spec[2:])
            disp = spec[2:]
        else:
            ty, fn = spec.split("::")
            impl, it = src.find_method(ty, fn, kw.get("trait"), kw.get("ty"))
            disp = spec if not kw.get("ty") else "%s::%s" % (kw["ty"], fn)
        if it["body_open"] is None:
            raise ExtractError("unsupported: %s has no body" % spec)
        if "ret" in kw:
            opts["ret"] = kw["ret"]
        if "rename" in kw:
            opts["rename"] = kw["rename"]
        if "subst" in kw:
            opts["subst"] = dict(x.split(":") for x in kw["subst"].split(","))
        if self.canary and "nocanary" not in kw:
            opts["canary"] = True
        rw = FnRewriter(src, it, opts, sections, self.rule_counts)
        pieces = rw.run()
        vis = kw.get("vis", "pub")
        toks = src.toks
        # strip existing visibility (tokens before `fn` belonging to the item are not part of item range)
        first = len(self.out) + 1
        pre = []
        for a in kw.get("attr", "").split(";"):
            if a:
                pre.append("#[%s]" % a)
        for a in pre:
            self.emit_verbatim(a, ("ins", "attr"))
        if vis:
            pieces.insert(0, (vis + " ", ("ins", "R3")))
        self.emit_pieces(pieces, src)
        last = len(self.out)
        self.fn_ranges.append((first, last, disp, src.path, toks[it["start"]].line))
        self.extracted.append(dict(function=disp, file=src.path, line=toks[it["start"]].line))

    # ---- template driver ----
    def expand(self, tpl_path):
        with open(tpl_path) as f:
            lines = f.read().split("\n")
        self._expand_lines(lines, tpl_path)

    def _expand_lines(self, lines, tpl_path):
        i = 0
        n = len(lines)
        rel = os.path.relpath(tpl_path, os.path.dirname(self.vxdir))
        while i < n:
            ln = lines[i]
            st = ln.strip()
            if not st.startswith("//@"):
                self.emit_verbatim(ln, ("tpl", rel, i + 1))
                i += 1
                continue
            parts = self._split_directive(st[3:])
            cmd = parts[0]
            if cmd == "include":
                p = os.path.join(self.vxdir, "prelude", parts[1])
                with open(p) as f:
                    sub = f.read().split("\n")
                self._expand_lines(sub, p)
                i += 1
            elif cmd == "use":
                pth = os.path.join(os.path.dirname(self.vxdir), "units", "inc", parts[1])
                with open(pth) as f:
                    sub = f.read().split("\n")
                self._expand_lines(sub, pth)
                i += 1
            elif cmd == "struct":
                self.do_struct(parts[1:])
                i += 1
            elif cmd == "implhdr":
                self.do_implhdr(parts[1:])
                i += 1
            elif cmd == "trait":
                # optional block until //@end
                extra = []
                j = i + 1
                if j < n and lines[j].strip() == "//@spec-items":
                    j += 1
                    while lines[j].strip() != "//@end":
                        extra.append(lines[j])
                        j += 1
                    i = j + 1
                else:
                    i += 1
                self.do_trait(parts[1:], extra)
            elif cmd == "fn":
                sections = []
                opts = {"assert_modes": {}, "floatcasts": set(), "opassign": [], "closures": {}, "replace": [], "mapcollect": {}, "itermapcollect": set(), "enumerate": set()}
                j = i + 1
                cur = None
                while True:
                    if j >= n:
                        raise ExtractError("template: //@fn without //@end (%s:%d)" % (tpl_path, i + 1))
                    s2 = lines[j].strip()
                    if s2.startswith("//@"):
                        p2 = self._split_directive(s2[3:])
                        c2 = p2[0]
                        if c2 == "end":
                            break
                        if c2 in ("spec", "top", "bottom"):
                            cur = dict(kind=c2, lines=[], label=c2)
                            sections.append(cur)
                        elif c2 == "loop":
                            # `//@loop n opt`: the contract of a loop that an equivalent rewrite may have replaced by a library call (fill, ...):
                            # skipped when the function has fewer loops
                            cur = dict(kind="loop", n=int(p2[1]), lines=[], label="loop%s" % p2[1], optional=(len(p2) > 2 and p2[2] == "opt"))
                            sections.append(cur)
                        elif c2 == "looplabel":
                            sections.append(dict(kind="looplabel", n=int(p2[1]), name=p2[2], lines=[], label="looplabel%s" % p2[1]))
                            cur = None
                        elif c2 in ("before", "after"):
                            cur = dict(kind=c2, n=int(p2[1]), pattern=p2[2], lines=[], label="%s%s:%s" % (c2, p2[1], p2[2]))
                            sections.append(cur)
                        elif c2 == "assert":
                            opts["assert_modes"][int(p2[1])] = p2[2]
                            cur = None
                        elif c2 == "floatcast":
                            opts["floatcasts"].add(int(p2[1]))
                            cur = None
                        elif c2 == "opassign":
                            opts["opassign"].extend(p2[1:])
                            cur = None
                        elif c2 == "floatneg":
                            opts.setdefault("floatneg", []).extend(p2[1:])
                            cur = None
                        elif c2 == "closure":
                            d = opts["closures"].setdefault(int(p2[1]), {})
                            if p2[2] == "name":
                                d["name"] = p2[3]
                            else:
                                d["contract"] = p2[3]
                            cur = None
                        elif c2 == "enumerate":
                            opts["enumerate"].add(int(p2[1]))
                            cur = None
                        elif c2 == "forentries":
                            opts.setdefault("forentries", set()).add(int(p2[1]))
                            if len(p2) > 2 and p2[2] == "ref":      # `for x in slice` over non-Copy elements: `let x = &slice[i];`
                                opts.setdefault("forentries_ref", set()).add(int(p2[1]))
                            cur = None
                        elif c2 == "tailbind":
                            opts["tailbind"] = p2[1]
                            cur = None
                        elif c2 == "itermapcollect":
                            opts["itermapcollect"].add(int(p2[1]))
                            cur = None
                        elif c2 == "mapcollect":
                            opts["mapcollect"][int(p2[1])] = p2[2]
                            cur = None
                        elif c2 == "replace-call":
                            opts["replace"].append((p2[1], p2[3]))
                            cur = None
                        elif c2 == "replace-call-opt":
                            # applied where the form occurs; its absence is not a lost anchor (if the unrewritten form is
                            # still present in some other shape Verus rejects the file: exit 2)
                            opts["replace"].append((p2[1], p2[3], True))
                            cur = None
                        else:
                            raise ExtractError("template: unknown sub-directive %s (%s:%d)" % (c2, tpl_path, j + 1))
                    else:
                        if cur is not None:
                            cur["lines"].append(lines[j])
                        elif s2:
                            raise ExtractError("template: stray text in //@fn block (%s:%d)" % (tpl_path, j + 1))
                    j += 1
                # constants of f64 that Verus does not know: optional everywhere (R11)
                for pat, rep in (("f64::EPSILON", "vx_f64_epsilon()"), ("f64::MAX", "vx_f64_max()")):
                    if not any(r[0] == pat for r in opts["replace"]):
                        opts["replace"].append((pat, rep, True))
                self.do_fn(parts[1:], sections, opts)
                i = j + 1
            elif cmd == "invpair":
                import straightline
                straightline.gen_invpair(self, parts[1:])
                i += 1
            else:
                raise ExtractError("template: unknown directive %s (%s:%d)" % (cmd, tpl_path, i + 1))

    @staticmethod
    def _split_directive(s):
        # whitespace split honouring "double quoted" strings
        out = []
        for m in re.finditer(r'"((?:[^"\\]|\\.)*)"|(\S+)', s):
            if m.group(1) is not None:
                out.append(m.group(1).replace('\\"', '"'))
            else:
                out.append(m.group(2))
        return out

    def text(self):
        return "\n".join(l for (l, o) in self.out) + "\n"

    def linemap(self):
        return [o for (l, o) in self.out]


def assemble(repo, vxdir, tpl, canary=False):
    a = Assembler(repo, vxdir, canary)
    a.expand(tpl)
    return a


if __name__ == "__main__":
    import argparse
    ap = argparse.ArgumentParser()
    ap.add_argument("template")
    ap.add_argument("--repo", default="/repo")
    ap.add_argument("-o", "--out", default="-")
    ap.add_argument("--map")
    a = ap.parse_args()
    try:
        asm = assemble(a.repo, os.path.dirname(os.path.abspath(__file__)), a.template)
    except (ExtractError, KeyError, LexError) as e:
        print("UNDECIDED extract: %s" % e, file=sys.stderr)
        sys.exit(2)
    if a.out == "-":
        sys.stdout.write(asm.text())
    else:
        with open(a.out, "w") as f:
            f.write(asm.text())
    if a.map:
        with open(a.map, "w") as f:
            json.dump(dict(lines=asm.linemap(), fns=asm.fn_ranges, rules=asm.rule_counts), f)
