"""C13 field-coverage scan: every field of a sketcher struct (as extracted from /repo on this run) must be
either mentioned by the struct's `fresh` predicate (directly or through `view()`), or be in the declared list of
stateless marker fields.  A field added to the repository struct that the reset does not restore is thereby reported."""
import re


def _body_after(text, start, name):
    m = re.compile(r"spec fn %s\s*\(" % name).search(text, start)
    if not m:
        return ""
    i = text.index("{", m.end())
    depth = 0
    j = i
    while j < len(text):
        if text[j] == "{":
            depth += 1
        elif text[j] == "}":
            depth -= 1
            if depth == 0:
                break
        j += 1
    return text[i:j + 1]


def make(cfg):
    def check(repo, results, tier):
        failed = []
        n = 0
        for c in cfg:
            r = next((x for x in results if x.name == c["unit"]), None)
            if r is None or not r.text:
                return dict(status="undecided", reason="field coverage: unit %s not assembled" % c["unit"], failed=[])
            fields = r.struct_fields.get(c["struct"])
            if fields is None:
                return dict(status="undecided", reason="field coverage: struct %s not extracted" % c["struct"], failed=[])
            pos = r.text.find("pub struct %s" % c["struct"])
            body = _body_after(r.text, pos, "fresh")
            # follow spec fns called on self from fresh() (one level, e.g. view(), unit_gen())
            for callee in set(re.findall(r"\bself\.([A-Za-z_][A-Za-z0-9_]*)\s*\(", body)):
                body += _body_after(r.text, pos, callee)
            for f in fields:
                n += 1
                if f in c.get("markers", []):
                    continue
                if not re.search(r"\bself\.%s\b" % re.escape(f), body):
                    failed.append(dict(obligation="C13::%s::field-coverage" % c["struct"], function="%s::fresh" % c["struct"],
                                       kind="field not covered by fresh()", clause="field `%s` of struct %s is neither mentioned by fresh() nor declared a stateless marker" % (f, c["struct"]),
                                       site="units/%s.vt" % c["unit"], at="", rendered=""))
            for f in c.get("markers", []):
                if f not in fields:
                    failed.append(dict(obligation="C13::%s::field-coverage" % c["struct"], function="%s::fresh" % c["struct"],
                                       kind="declared marker field missing", clause="marker field `%s` no longer exists in %s" % (f, c["struct"]),
                                       site="units/%s.vt" % c["unit"], at="", rendered=""))
        if failed:
            # a field the contracts do not know about: the contract is out of date -> UNDECIDED (the witness search
            # on the real code then decides whether the reset really misses state)
            return dict(status="undecided", failed=[], obligations=n, discharged=n - len(failed),
                        reason="field coverage: " + "; ".join(f["clause"] for f in failed),
                        cmd="field-coverage scan of fresh() against the structs extracted from /repo")
        return dict(status="ok", failed=failed, obligations=n, discharged=n - len(failed), reason="",
                    cmd="field-coverage scan of fresh() against the structs extracted from /repo")
    return check
