#!/usr/bin/env python3
"""Regenerate MANIFEST.json from vx/props.py (claimed properties) and vx/na.py (not applicable)."""
import json, os, sys
HERE = os.path.dirname(os.path.abspath(__file__))
sys.path.insert(0, HERE)
import props, na
VERIF = os.path.dirname(HERE)
checks = []
for pid in sorted(props.PROPS):
    P = props.PROPS[pid]
    checks.append(dict(
        property_id=pid,
        quick_cmd="./check %s --tier quick" % pid,
        thorough_cmd="./check %s --tier thorough" % pid,
        evidence_file="/verif/evidence/%s.json" % pid,
        replay_cmd_template="./check %s --replay {path}" % pid,
        engine="vx",
        level_claimed=dict(category=P.get("level", "proof"), text=P["level_text"], design_ref=P.get("design_ref", "DESIGN.md §4 " + pid)),
        level_note=P["level_note"],
        technique=P.get("technique", "contract-based deductive verification (Verus) of functions extracted from /repo on every run"),
    ))
m = dict(
    version=1,
    setup_cmd="./check --setup",
    hooks=dict(
        guard="none (no source hooks): cfg(kani) harness modules and cfg(test) replay modules are appended to a scratch copy of the working tree at check time",
        enable="checks copy /repo's working tree to /tmp/verif-scratch-*, append `#[cfg(kani)]`/`#[cfg(test)] #[path=/verif/...] mod` lines to src/lib.rs there, and remove the copy afterwards",
        baseline_off_cmd="cd /repo && cargo test --workspace --no-fail-fast --offline",
        source_commits=[],
        add_only=True,
    ),
    engines=[dict(name="vx", path="/verif/vx", serves_properties=sorted(props.PROPS),
                  kind_free_text="extractor+splicer (vx/extract.py) assembling one Verus file per unit from /repo's current text and /verif/units/*.vt contracts; Verus/Z3 discharges; Kani/CBMC for unsafe code and IEEE leaf facts; replay/*.rs witness search on the real crate")],
    checks=checks,
    not_applicable=[dict(property_id=k, reason=v) for k, v in sorted(na.NA.items()) if k not in props.PROPS],
    notes="See DESIGN.md. Exit 2 = UNDECIDED (lost anchor / unsupported construct / rlimit); never occurs on the unchanged tree.",
)
json.dump(m, open(os.path.join(VERIF, "MANIFEST.json"), "w"), indent=1)
print("MANIFEST.json: %d checks, %d not applicable" % (len(checks), len(m["not_applicable"])))
