"""Kani units: harness/contract fragments appended to a scratch copy of the real crate (cfg(kani) only)."""
import json
import os
import re
import shutil
import subprocess
import time


def warm(repo, verif):
    return 0


def run_units(pid, kunits, repo, verif, tier, work):
    return []
