"""Kani units: harness modules (cfg(kani) only) appended by #[path] to a scratch copy of the real crate.

A unit = one file under /verif/kani/ holding #[kani::proof] harnesses that state a function's contract as
assume(pre); call the REAL function; assert(post).  Loop-free harnesses over kani::any() inputs of the full
domain are complete proofs; harnesses with #[kani::unwind] / bounded symbolic lengths are labelled bounded
and never counted as proved."""
import json
import os
import re
import shutil
import subprocess
import time

CACHE_TARGET = ".cache/kani-target"


def scratch(repo, tag):
    d = "/tmp/verif-scratch-kani-%s" % tag
    shutil.rmtree(d, ignore_errors=True)
    subprocess.run(["rsync", "-a", "--exclude", "target", "--exclude", ".git", repo.rstrip("/") + "/", d + "/"], check=True)
    return d


def kani_env(verif, pid=None):
    env = dict(os.environ)
    env["CARGO_NET_OFFLINE"] = "true"
    # one target directory per property: cargo names the artifacts independently of the scratch path, so checks of different
    # properties (different harness modules) must not share one; checks of the same property take turns (lock in driver.py)
    env["CARGO_TARGET_DIR"] = os.path.join(verif, CACHE_TARGET, pid) if pid else os.path.join(verif, CACHE_TARGET)
    return env


def parse_output(text):
    """-> {harness: dict(status, checks_total, checks_failed, failed_checks[], time)}"""
    res = {}
    cur = None
    by_thread = {}
    for line in text.split("\n"):
        tm = re.match(r"^Thread (\d+): (.*)$", line)
        if tm:
            th, rest = tm.group(1), tm.group(2)
            m = re.match(r"Checking harness (\S+?)\.\.\.", rest)
            if m:
                by_thread[th] = m.group(1)
                res[m.group(1)] = dict(status="unknown", checks_total=0, checks_failed=0, failed_checks=[], time=None, unwinding_failed=False)
                continue
            cur = by_thread.get(th)
            line = rest
        m = re.match(r"Checking harness (\S+?)\.\.\.", line)
        if m:
            cur = m.group(1)
            res[cur] = dict(status="unknown", checks_total=0, checks_failed=0, failed_checks=[], time=None, unwinding_failed=False)
            continue
        if cur is None:
            continue
        m = re.match(r"\s*\*\* (\d+) of (\d+) failed", line)
        if m:
            res[cur]["checks_failed"] = int(m.group(1))
            res[cur]["checks_total"] = int(m.group(2))
        m = re.match(r"Failed Checks: (.*)", line)
        if m:
            res[cur]["failed_checks"].append(m.group(1).strip())
            if "unwinding assertion" in m.group(1):
                res[cur]["unwinding_failed"] = True
        m = re.match(r"\s*File: \"([^\"]+)\", line (\d+)", line)
        if m and res[cur]["failed_checks"] and "@" not in res[cur]["failed_checks"][-1]:
            res[cur]["failed_checks"][-1] += " @ %s:%s" % (m.group(1), m.group(2))
        if "VERIFICATION:- SUCCESSFUL" in line:
            res[cur]["status"] = "ok"
        elif "VERIFICATION:- FAILED" in line:
            res[cur]["status"] = "failed"
        m = re.match(r"Verification Time: ([0-9.]+)s", line)
        if m:
            res[cur]["time"] = float(m.group(1))
    return res


def run_units(pid, kunits, repo, verif, tier, work):
    out = []
    d = scratch(repo, "%s-%d" % (pid, os.getpid()))
    try:
        lib = os.path.join(d, "src", "lib.rs")
        feature_line = "#![cfg_attr(kani, feature(stmt_expr_attributes, proc_macro_hygiene))]\n"
        need_feat = any(u.get("loop_contracts") for u in kunits)
        if need_feat:
            s = open(lib).read()
            open(lib, "w").write(feature_line + s)
        for u in kunits:
            tgt = os.path.join(d, u.get("inject_into", "src/lib.rs"))
            with open(tgt, "a") as f:
                f.write('\n#[cfg(kani)]\n#[path = "%s"]\nmod %s;\n' % (os.path.join(verif, "kani", u["file"]), u["mod"]))
        for u in kunits:
            for sp in u.get("splices", []):
                # mechanical in-place annotation of the scratch copy (e.g. a loop-contract attribute before a loop)
                p = os.path.join(d, sp["file"])
                s = open(p).read()
                if s.count(sp["anchor"]) != 1:
                    out.append(dict(name=u["name"], status="undecided", reason="lost anchor `%s` in %s" % (sp["anchor"], sp["file"]), failed=[], harnesses=[]))
                    continue
                open(p, "w").write(s.replace(sp["anchor"], sp["text"] + sp["anchor"]))
        for u in kunits:
            if any(o["name"] == u["name"] for o in out):
                continue
            out.append(run_unit(pid, u, d, verif, tier))
    finally:
        shutil.rmtree(d, ignore_errors=True)
    return out


def run_unit(pid, u, d, verif, tier):
    t0 = time.time()
    hs = [h for h in u["harnesses"] if tier == "thorough" or not h.get("thorough_only")]
    flags = ["-Z", "function-contracts", "-Z", "stubbing"] + u.get("flags", [])
    cmd = ["cargo", "kani"] + flags + ["--exact", "-j", str(u.get("jobs", 8)), "--output-format=terse"]
    for h in hs:
        cmd += ["--harness", "%s%s::%s" % (u.get("mod_prefix", ""), u["mod"], h["name"])]
    timeout = u.get("timeout_thorough" if tier == "thorough" else "timeout", 900)
    res = dict(name=u["name"], cmd="CARGO_NET_OFFLINE=true " + " ".join(cmd) + "  (scratch copy of the working tree + kani/%s)" % u["file"],
               failed=[], harnesses=[], status="ok", reason="", checks_total=0, checks_ok=0,
               bounded=any(h.get("bounded") for h in hs), bound="; ".join("%s: %s" % (h["name"], h["bound"]) for h in hs if h.get("bounded")),
               label="")
    logp = os.path.join(d, "kani_%s.log" % u["name"])
    with open(logp, "w") as lf:
        pr = subprocess.Popen(cmd, cwd=d, env=kani_env(verif, pid), stdout=lf, stderr=subprocess.STDOUT, start_new_session=True)
        try:
            rc = pr.wait(timeout=timeout)
        except subprocess.TimeoutExpired:
            import signal
            try:
                os.killpg(pr.pid, signal.SIGKILL)
            except ProcessLookupError:
                pass
            pr.wait()
            rc = -9
    text = open(logp, errors="replace").read()
    parsed = parse_output(text)
    res["wall_s"] = round(time.time() - t0, 1)
    for h in hs:
        full = "%s%s::%s" % (u.get("mod_prefix", ""), u["mod"], h["name"])
        r = None
        for k, v in parsed.items():
            if k.endswith(full) or k.endswith("::" + h["name"]):
                r = v
        hd = dict(name=h["name"], functions=h.get("functions", []), bounded=bool(h.get("bounded")), bound=h.get("bound"),
                  status=(r or {}).get("status", "not run"), checks_total=(r or {}).get("checks_total", 0),
                  checks_failed=(r or {}).get("checks_failed", 0), time_s=(r or {}).get("time"), contract=h.get("contract", ""))
        res["harnesses"].append(hd)
        if r is None or r["status"] == "unknown":
            if h.get("optional"):
                hd["status"] = "not finished (optional: reported as assumed)"
                continue
            res["status"] = "undecided"
            res["reason"] += "harness %s did not finish (rc=%s) %s; " % (h["name"], rc, text[-300:].replace("\n", " ") if r is None else "")
            continue
        res["checks_total"] += r["checks_total"]
        res["checks_ok"] += r["checks_total"] - r["checks_failed"]
        if r["status"] == "failed":
            if r["unwinding_failed"] and all("unwinding" in c for c in r["failed_checks"]):
                res["status"] = "undecided" if res["status"] == "ok" else res["status"]
                res["reason"] += "harness %s: unwinding bound too small; " % h["name"]
                continue
            res["status"] = "failed"
            for c in r["failed_checks"]:
                if "unwinding" in c:
                    continue
                res["failed"].append(dict(obligation="kani::%s::%s" % (u["name"], h["name"]), function=", ".join(h.get("functions", [])),
                                          kind="kani check failed", clause=c[:300], site=c.split("@")[-1].strip() if "@" in c else "", at="",
                                          rendered=c, counterexample=None))
    res["label"] = "bounded" if res["bounded"] else "full-domain"
    return res


def warm(repo, verif):
    """compile the dependencies for kani once (about a minute); later runs only rebuild the crate"""
    d = scratch(repo, "warm")
    try:
        lib = os.path.join(d, "src", "lib.rs")
        with open(lib, "a") as f:
            f.write("\n#[cfg(kani)]\nmod verif_kani_warm { #[kani::proof] fn warm() { let x: u8 = kani::any(); assert!(x == x); } }\n")
        p = subprocess.run(["cargo", "kani", "--exact", "--harness", "verif_kani_warm::warm"], cwd=d, env=kani_env(verif, "C15"),
                           capture_output=True, text=True, timeout=3000)
        if "VERIFICATION:- SUCCESSFUL" not in p.stdout:
            print(p.stdout[-1500:], p.stderr[-1500:])
            return 1
        return 0
    finally:
        shutil.rmtree(d, ignore_errors=True)
