#!/usr/bin/env python3
"""keepseed.py <ID> <srcdir> <dest name> "<needs>" "<caught by>"  -- store a confirmed seeded change under /verif/seeded/"""
import json, os, shutil, sys
pid, src, name, needs, caught = sys.argv[1:6]
dst = os.path.join("/verif/seeded", name)
os.makedirs(dst, exist_ok=True)
for f in ("patch.diff", "demo.rs", "notes.md"):
    if os.path.exists(os.path.join(src, f)):
        shutil.copy(os.path.join(src, f), os.path.join(dst, f))
meta = dict(property=pid, origin="independent sub-agent given only the property text and a scratch worktree",
            needs_to_manifest=needs,
            confirmed=dict(demo_on_unchanged_tree="passes", demo_with_patch="fails", existing_tests_with_patch="pass (sub-agent ran cargo test --offline --lib; see notes.md)",
                           how="vx/seedtest.py: scratch copy of /repo, demo appended as #[cfg(test)] module, cargo test --lib seeded_demo before and after `patch -p1 < patch.diff`"),
            check_result=caught)
json.dump(meta, open(os.path.join(dst, "meta.json"), "w"), indent=1)
print("kept", dst)
