// ---- anyhow: an opaque error value (payloads are never inspected by the code under proof) ----
pub mod anyhow {
    use vstd::prelude::*;
    #[verifier::external_body]
    pub struct Error { }
    impl core::fmt::Debug for Error {
        #[verifier::external_body]
        fn fmt(&self, f: &mut core::fmt::Formatter<'_>) -> core::fmt::Result { unimplemented!() }
    }
    pub type Result<T> = core::result::Result<T, Error>;
    #[verifier::external_body]
    pub fn vx_error() -> Error { unimplemented!() }
}
