// ---- argmin / rayon stubs for MleJaccard (assumed contracts read off argmin 0.10 goldensectionsearch/mod.rs) ----
pub trait ParallelSlice<T> {}
impl<T> ParallelSlice<T> for [T] {}
pub open spec fn f_lt(a: f64, b: f64) -> bool { a.partial_cmp_spec(&b) == Some(Ordering::Less) }
pub open spec fn f_le(a: f64, b: f64) -> bool { a.partial_cmp_spec(&b) == Some(Ordering::Less) || a.partial_cmp_spec(&b) == Some(Ordering::Equal) }
#[verifier::external_body]
pub struct ArgminError { _p: u8 }
impl core::fmt::Debug for ArgminError { #[verifier::external_body] fn fmt(&self, f: &mut core::fmt::Formatter<'_>) -> core::fmt::Result { unimplemented!() } }
pub struct GoldenSectionSearch { pub min_bound: f64, pub max_bound: f64, pub vx_pad: u8 }
impl GoldenSectionSearch {
    // new(min, max) is Err iff max <= min  (argmin: `if max_bound <= min_bound { return Err(..) }`; a NaN bound passes that test)
    #[verifier::external_body]
    pub fn new(min_bound: f64, max_bound: f64) -> (r: Result<GoldenSectionSearch, ArgminError>)
        ensures r is Err <==> f_le(max_bound, min_bound),
            r is Ok ==> r->Ok_0.min_bound == min_bound && r->Ok_0.max_bound == max_bound,
    { unimplemented!() }
}
pub struct IterState { pub best_param: Option<f64>, pub best_cost: f64, pub vx_pad: u8 }
#[verifier::external_body]
pub struct OptimizationResult { _p: u8 }
impl OptimizationResult {
    pub uninterp spec fn state_spec(&self) -> IterState;
    #[verifier::external_body]
    pub fn state(&self) -> (r: &IterState) ensures *r == self.state_spec() { unimplemented!() }
}
// Executor::new(cost, solver).configure(|s| s.param(init).max_iters(100)).add_observer(..).run():
// GoldenSectionSearch::init fails iff `init < min_bound || init > max_bound`; cost() of MleCost never returns Err.
#[verifier::external_body]
pub fn vx_argmin_run<C>(cost: C, solver: GoldenSectionSearch, init: f64) -> (r: Result<OptimizationResult, ArgminError>)
    ensures r is Err <==> (f_lt(init, solver.min_bound) || f_lt(solver.max_bound, init)),
{ unimplemented!() }
