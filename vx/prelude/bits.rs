// ---- wrapping arithmetic == builtin modular arithmetic (proved, not assumed) ----
pub proof fn vx_bv_add64(a: u64, b: u64) by(bit_vector)
    ensures add(a, b) as int == (if a + b > 0xffff_ffff_ffff_ffff { a + b - 0x1_0000_0000_0000_0000 } else { a + b }) {}
pub proof fn vx_bv_sub64(a: u64, b: u64) by(bit_vector)
    ensures sub(a, b) as int == (if a - b < 0 { a - b + 0x1_0000_0000_0000_0000 } else { a - b }) {}
pub proof fn vx_bv_mul64(a: u64, b: u64) by(bit_vector)
    ensures mul(a, b) as int == (a * b) % 0x1_0000_0000_0000_0000 {}
pub proof fn vx_bv_add32(a: u32, b: u32) by(bit_vector)
    ensures add(a, b) as int == (if a + b > 0xffff_ffff { a + b - 0x1_0000_0000 } else { a + b }) {}
pub proof fn vx_bv_sub32(a: u32, b: u32) by(bit_vector)
    ensures sub(a, b) as int == (if a - b < 0 { a - b + 0x1_0000_0000 } else { a - b }) {}
pub proof fn vx_bv_mul32(a: u32, b: u32) by(bit_vector)
    ensures mul(a, b) as int == (a * b) % 0x1_0000_0000 {}
pub broadcast proof fn vx_wadd64(a: u64, b: u64) ensures #[trigger] a.wrapping_add(b) == add(a, b) { vx_bv_add64(a, b); }
pub broadcast proof fn vx_wsub64(a: u64, b: u64) ensures #[trigger] a.wrapping_sub(b) == sub(a, b) { vx_bv_sub64(a, b); }
pub broadcast proof fn vx_wmul64(a: u64, b: u64) ensures #[trigger] a.wrapping_mul(b) == mul(a, b) { vx_bv_mul64(a, b); }
pub broadcast proof fn vx_wadd32(a: u32, b: u32) ensures #[trigger] a.wrapping_add(b) == add(a, b) { vx_bv_add32(a, b); }
pub broadcast proof fn vx_wsub32(a: u32, b: u32) ensures #[trigger] a.wrapping_sub(b) == sub(a, b) { vx_bv_sub32(a, b); }
pub broadcast proof fn vx_wmul32(a: u32, b: u32) ensures #[trigger] a.wrapping_mul(b) == mul(a, b) { vx_bv_mul32(a, b); }
pub broadcast proof fn vx_ssub64(a: u64, b: u64) ensures #[trigger] a.saturating_sub(b) == (if a < b { 0u64 } else { sub(a, b) }) { vx_bv_sub64(a, b); }
pub broadcast proof fn vx_ssub32(a: u32, b: u32) ensures #[trigger] a.saturating_sub(b) == (if a < b { 0u32 } else { sub(a, b) }) { vx_bv_sub32(a, b); }
pub broadcast group vx_wrapping_bridge { vx_wadd64, vx_wsub64, vx_wmul64, vx_wadd32, vx_wsub32, vx_wmul32, vx_ssub64, vx_ssub32 }
