// ---- native-endian byte representations (assumed contracts of core's to_ne_bytes; injectivity is discharged by the Kani unit `sig`:
// from_ne_bytes(to_ne_bytes(x)) == x over the full domain of each integer type) ----
pub uninterp spec fn ne_bytes_u16(x: u16) -> Seq<u8>;
pub uninterp spec fn ne_bytes_u32(x: u32) -> Seq<u8>;
// (assume_specification cannot name core's return type `[u8; size_of::<Self>()]`: the call is rendered through these wrappers, R11)
#[verifier::external_body]
pub fn vx_ne_bytes_u16(x: u16) -> (r: [u8; 2]) ensures r@ == ne_bytes_u16(x) { x.to_ne_bytes() }
#[verifier::external_body]
pub fn vx_ne_bytes_u32(x: u32) -> (r: [u8; 4]) ensures r@ == ne_bytes_u32(x) { x.to_ne_bytes() }
pub mod vx_bytes_ax {
    use vstd::prelude::*;
    use super::*;
    pub broadcast axiom fn ne_u16_len(x: u16) ensures (#[trigger] ne_bytes_u16(x)).len() == 2;
    pub broadcast axiom fn ne_u32_len(x: u32) ensures (#[trigger] ne_bytes_u32(x)).len() == 4;
    pub axiom fn ne_u16_inj(x: u16, y: u16) requires ne_bytes_u16(x) == ne_bytes_u16(y) ensures x == y;
    pub axiom fn ne_u32_inj(x: u32, y: u32) requires ne_bytes_u32(x) == ne_bytes_u32(y) ensures x == y;
}
// the capacity hint `self.len() * size_of::<T>()` of Vec::with_capacity: only a hint (std guarantees len * size_of::<T>() <= isize::MAX
// for a live Vec<T>, which Verus does not know); no fact about its value is used
#[verifier::external_body]
pub fn vx_cap_hint(n: usize, w: usize) -> (r: usize) { n * w }
// String as UTF-8 bytes
pub uninterp spec fn string_bytes(s: &String) -> Seq<u8>;
#[verifier::external_body]
pub fn vx_string_as_bytes(s: &String) -> (r: &[u8]) ensures r@ == string_bytes(s) { s.as_ref() }
// <[u8]>::to_vec copies the bytes (assumed contract of alloc)
pub assume_specification<T: Clone>[ <[T]>::to_vec ](s: &[T]) -> (r: Vec<T>)
    ensures r@.len() == s@.len(), forall|i: int| 0 <= i < s@.len() ==> call_ensures(T::clone, (&#[trigger] s@[i],), r@[i]);
