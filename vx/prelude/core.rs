// ---- platform and std stubs (assumed contracts; every item here is listed in the evidence) ----

// a documented run-time panic: modelled as "does not return"
#[verifier::external_body]
pub fn vpanic() -> !
    ensures false,
{ panic!() }

pub assume_specification<T: Clone>[ <[T]>::fill ](s: &mut [T], value: T)
    ensures final(s)@.len() == old(s)@.len(),
            forall|i: int| 0 <= i < final(s)@.len() ==> final(s)@[i] == value;

pub assume_specification<T>[ <[T]>::swap ](s: &mut [T], a: usize, b: usize)
    requires a < old(s)@.len(), b < old(s)@.len(),
    ensures final(s)@ == old(s)@.update(a as int, old(s)@[b as int]).update(b as int, old(s)@[a as int]);

// R13: `(a..b).map(f).collect()` is rendered as a call to this function, whose body is verified here
// (assumption left: that the std iterator chain is this loop).
pub fn vx_map_collect_usize<T, F: Fn(usize) -> T>(lo: usize, hi: usize, f: F) -> (v: Vec<T>)
    requires forall|i: usize| lo <= i < hi ==> call_requires(f, (i,)),
    ensures v@.len() == (if hi >= lo { hi - lo } else { 0 }),
        forall|i: int| 0 <= i < v@.len() ==> call_ensures(f, ((lo + i) as usize,), #[trigger] v@[i]),
{
    let mut v: Vec<T> = Vec::new();
    let mut i = lo;
    while i < hi
        invariant lo <= i <= hi || (hi < lo && i == lo),
            v@.len() == i - lo,
            forall|j: usize| lo <= j < hi ==> call_requires(f, (j,)),
            forall|j: int| 0 <= j < v@.len() ==> call_ensures(f, ((lo + j) as usize,), #[trigger] v@[j]),
        decreases hi - i,
    {
        let x = f(i);
        v.push(x);
        i += 1;
    }
    v
}
pub fn vx_map_collect_u64<T, F: Fn(u64) -> T>(lo: u64, hi: u64, f: F) -> (v: Vec<T>)
    requires forall|i: u64| lo <= i < hi ==> call_requires(f, (i,)),
    ensures v@.len() == (if hi >= lo { hi - lo } else { 0 }),
        forall|i: int| 0 <= i < v@.len() ==> call_ensures(f, ((lo + i) as u64,), #[trigger] v@[i]),
{
    let mut v: Vec<T> = Vec::new();
    let mut i = lo;
    while i < hi
        invariant lo <= i <= hi || (hi < lo && i == lo),
            v@.len() == i - lo,
            forall|j: u64| lo <= j < hi ==> call_requires(f, (j,)),
            forall|j: int| 0 <= j < v@.len() ==> call_ensures(f, ((lo + j) as u64,), #[trigger] v@[j]),
        decreases hi - i,
    {
        let x = f(i);
        v.push(x);
        i += 1;
    }
    v
}

// `(a..b).collect()` into a Vec<usize>: rendered as a call to this function (body verified here)
pub fn vx_range_collect(lo: usize, hi: usize) -> (v: Vec<usize>)
    ensures v@.len() == (if hi >= lo { hi - lo } else { 0 }),
        forall|i: int| 0 <= i < v@.len() ==> #[trigger] v@[i] == lo + i,
{
    let mut v: Vec<usize> = Vec::new();
    let mut i = lo;
    while i < hi
        invariant lo <= i <= hi || (hi < lo && i == lo), v@.len() == i - lo,
            forall|j: int| 0 <= j < v@.len() ==> #[trigger] v@[j] == lo + j,
        decreases hi - i,
    {
        v.push(i);
        i += 1;
    }
    v
}

// `v.iter().map(f).collect()` is rendered as a call to this function (body verified here)
pub fn vx_iter_map_collect<A, T, F: Fn(&A) -> T>(v: &Vec<A>, f: F) -> (r: Vec<T>)
    requires forall|i: int| 0 <= i < v@.len() ==> call_requires(f, (&#[trigger] v@[i],)),
    ensures r@.len() == v@.len(),
        forall|i: int| 0 <= i < v@.len() ==> call_ensures(f, (&v@[i],), #[trigger] r@[i]),
{
    let mut r: Vec<T> = Vec::new();
    let mut i: usize = 0;
    while i < v.len()
        invariant i <= v@.len(), r@.len() == i,
            forall|j: int| 0 <= j < v@.len() ==> call_requires(f, (&#[trigger] v@[j],)),
            forall|j: int| 0 <= j < i ==> call_ensures(f, (&v@[j],), #[trigger] r@[j]),
        decreases v@.len() - i,
    {
        let x = f(&v[i]);
        r.push(x);
        i += 1;
    }
    r
}

// `v[a..b].sort_unstable()` on a Vec<u64>: sorted permutation of that range, rest untouched (assumed contract of std's sort)
pub open spec fn vx_sorted_u64(s: Seq<u64>) -> bool { forall|i: int, j: int| 0 <= i <= j < s.len() ==> s[i] <= s[j] }
#[verifier::external_body]
pub fn vx_sort_range_u64(v: &mut Vec<u64>, a: usize, b: usize)
    requires a <= b <= old(v)@.len(),
    ensures final(v)@.len() == old(v)@.len(),
        final(v)@.subrange(0, a as int) == old(v)@.subrange(0, a as int),
        final(v)@.subrange(b as int, old(v)@.len() as int) == old(v)@.subrange(b as int, old(v)@.len() as int),
        vx_sorted_u64(final(v)@.subrange(a as int, b as int)),
        final(v)@.subrange(a as int, b as int).to_multiset() == old(v)@.subrange(a as int, b as int).to_multiset(),
{ v[a..b].sort_unstable() }
// usize::try_from(u64).unwrap() on a 64-bit target
pub fn vx_u64_to_usize(x: u64) -> (r: usize) ensures r == x { x as usize }
pub fn vx_min_usize(a: usize, b: usize) -> (r: usize) ensures r == (if a <= b { a } else { b }) { if a <= b { a } else { b } }
pub fn vx_min_i64(a: i64, b: i64) -> (r: i64) ensures r == (if a <= b { a } else { b }) { if a <= b { a } else { b } }
pub fn vx_max_i64(a: i64, b: i64) -> (r: i64) ensures r == (if a >= b { a } else { b }) { if a >= b { a } else { b } }
