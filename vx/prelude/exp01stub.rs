// ExpRestricted01 as seen by its users: a distribution whose draw is a deterministic function of (lambda, generator state).
// (its range [0,1) is proved on the real sample in unit exp01; here it is an assumed contract)
pub uninterp spec fn exp01_draw(lambda: f64, st: int) -> (f64, int);
pub uninterp spec fn exp01_lambda_of(nbhash: usize) -> f64;      // ln(m / (m-1))
#[verifier::external_body]
pub fn vx_lambda(nbhash: usize) -> (r: f64) ensures r == exp01_lambda_of(nbhash) { ((nbhash as f64) / ((nbhash - 1) as f64)).ln() }
