// ---- IEEE-754 as far as Verus sees it: total, deterministic operators (F0) ----
// (the result of a float operator is the uninterpreted *_spec function of vstd; these axioms only say that the
//  exec operator never fails and returns exactly that value, i.e. float arithmetic is a pure function)
pub mod vx_fl {
    use vstd::prelude::*;
    use vstd::std_specs::ops::*;
    use vstd::std_specs::cmp::*;
    pub broadcast axiom fn f64_mul_total(a: f64, b: f64) ensures #[trigger] a.mul_req(b);
    pub broadcast axiom fn f64_add_total(a: f64, b: f64) ensures #[trigger] a.add_req(b);
    pub broadcast axiom fn f64_sub_total(a: f64, b: f64) ensures #[trigger] a.sub_req(b);
    pub broadcast axiom fn f64_div_total(a: f64, b: f64) ensures #[trigger] a.div_req(b);
    pub broadcast axiom fn f32_mul_total(a: f32, b: f32) ensures #[trigger] a.mul_req(b);
    pub broadcast axiom fn f32_add_total(a: f32, b: f32) ensures #[trigger] a.add_req(b);
    pub broadcast axiom fn f32_sub_total(a: f32, b: f32) ensures #[trigger] a.sub_req(b);
    pub broadcast axiom fn f32_div_total(a: f32, b: f32) ensures #[trigger] a.div_req(b);
    pub broadcast group float_total { f64_mul_total, f64_add_total, f64_sub_total, f64_div_total,
                                      f32_mul_total, f32_add_total, f32_sub_total, f32_div_total }
    pub axiom fn f64_obeys()
        ensures <f64 as MulSpec<f64>>::obeys_mul_spec(), <f64 as AddSpec<f64>>::obeys_add_spec(),
                <f64 as SubSpec<f64>>::obeys_sub_spec(), <f64 as DivSpec<f64>>::obeys_div_spec(),
                <f64 as PartialOrdSpec<f64>>::obeys_partial_cmp_spec(), <f64 as PartialEqSpec<f64>>::obeys_eq_spec();
    pub axiom fn f32_obeys()
        ensures <f32 as MulSpec<f32>>::obeys_mul_spec(), <f32 as AddSpec<f32>>::obeys_add_spec(),
                <f32 as SubSpec<f32>>::obeys_sub_spec(), <f32 as DivSpec<f32>>::obeys_div_spec(),
                <f32 as PartialOrdSpec<f32>>::obeys_partial_cmp_spec(), <f32 as PartialEqSpec<f32>>::obeys_eq_spec();
}

// R5: casts involving floats are rendered as calls to these (Verus rejects the `as` forms)
pub uninterp spec fn usize_as_f64(n: usize) -> f64;
pub uninterp spec fn u64_as_f64(n: u64) -> f64;
pub uninterp spec fn u32_as_f64(n: u32) -> f64;
pub uninterp spec fn i64_as_f64(n: i64) -> f64;
pub uninterp spec fn i32_as_f64(n: i32) -> f64;
pub uninterp spec fn f64_as_usize(x: f64) -> usize;
pub uninterp spec fn f64_as_i64(x: f64) -> i64;
pub uninterp spec fn f64_as_u64(x: f64) -> u64;
pub trait VxAsF64: Sized { spec fn as_f64_spec(self) -> f64; fn vx_to_f64(self) -> (r: f64) ensures r == self.as_f64_spec(); }
impl VxAsF64 for usize { open spec fn as_f64_spec(self) -> f64 { usize_as_f64(self) } #[verifier::external_body] fn vx_to_f64(self) -> (r: f64) { self as f64 } }
impl VxAsF64 for u64 { open spec fn as_f64_spec(self) -> f64 { u64_as_f64(self) } #[verifier::external_body] fn vx_to_f64(self) -> (r: f64) { self as f64 } }
impl VxAsF64 for u32 { open spec fn as_f64_spec(self) -> f64 { u32_as_f64(self) } #[verifier::external_body] fn vx_to_f64(self) -> (r: f64) { self as f64 } }
impl VxAsF64 for i64 { open spec fn as_f64_spec(self) -> f64 { i64_as_f64(self) } #[verifier::external_body] fn vx_to_f64(self) -> (r: f64) { self as f64 } }
impl VxAsF64 for i32 { open spec fn as_f64_spec(self) -> f64 { i32_as_f64(self) } #[verifier::external_body] fn vx_to_f64(self) -> (r: f64) { self as f64 } }
pub fn vx_as_f64<T: VxAsF64>(x: T) -> (r: f64) ensures r == x.as_f64_spec() { x.vx_to_f64() }
#[verifier::external_body]
pub fn vx_float_as_usize(x: f64) -> (r: usize) ensures r == f64_as_usize(x) { x as usize }
#[verifier::external_body]
pub fn vx_float_as_i64(x: f64) -> (r: i64) ensures r == f64_as_i64(x) { x as i64 }
#[verifier::external_body]
pub fn vx_float_as_u64(x: f64) -> (r: u64) ensures r == f64_as_u64(x) { x as u64 }

// named IEEE facts.  unit01(x) stands for 0 <= x < 1.
pub uninterp spec fn unit01(x: f64) -> bool;
// F1: floor(x * n) < n for x in [0,1), 1 <= n <= 2^53   (Kani harness kani/ieee.rs::f1_scale_in_range)
pub axiom fn ieee_f1_scale_in_range(x: f64, n: usize)
    requires unit01(x), 1 <= n, n <= 0x20_0000_0000_0000,
    ensures f64_as_usize(x.mul_spec(usize_as_f64(n))) < n;
// x * 1 is not below x (IEEE: x * 1.0 == x for every non-NaN x; Kani harness kani/ieee.rs::ieee_mul_one, full domain)
pub axiom fn ieee_mul_one(x: f64)
    ensures x.mul_spec(i32_as_f64(1i32)).partial_cmp_spec(&x) != Some(core::cmp::Ordering::Less);
pub uninterp spec fn usize_as_f32(n: usize) -> f32;
pub trait VxAsF32: Sized { spec fn as_f32_spec(self) -> f32; fn vx_to_f32(self) -> (r: f32) ensures r == self.as_f32_spec(); }
impl VxAsF32 for usize { open spec fn as_f32_spec(self) -> f32 { usize_as_f32(self) } #[verifier::external_body] fn vx_to_f32(self) -> (r: f32) { self as f32 } }
pub fn vx_as_f32<T: VxAsF32>(x: T) -> (r: f32) ensures r == x.as_f32_spec() { x.vx_to_f32() }
// transcendental / misc std float methods: arbitrary but fixed functions
pub uninterp spec fn f64_ln_1p_spec(x: f64) -> f64;
pub uninterp spec fn f64_ln_spec(x: f64) -> f64;
pub uninterp spec fn f64_abs_spec(x: f64) -> f64;
pub uninterp spec fn f64_floor_spec(x: f64) -> f64;
pub assume_specification[ f64::ln_1p ](x: f64) -> (r: f64) ensures r == f64_ln_1p_spec(x);
pub assume_specification[ f64::ln ](x: f64) -> (r: f64) ensures r == f64_ln_spec(x);
pub assume_specification[ f64::abs ](x: f64) -> (r: f64) ensures r == f64_abs_spec(x);
pub assume_specification[ f64::floor ](x: f64) -> (r: f64) ensures r == f64_floor_spec(x);
pub uninterp spec fn f64_epsilon_spec() -> f64;
#[verifier::external_body]
pub fn vx_f64_epsilon() -> (r: f64) ensures r == f64_epsilon_spec() { f64::EPSILON }
// loop counters of probabilistically terminating loops: release-mode (wrapping) semantics
pub fn vx_wrapping_incr_i32(i: i32) -> (r: i32) ensures r == (if i == i32::MAX { i32::MIN } else { (i + 1) as i32 }) { i.wrapping_add(1) }
pub uninterp spec fn f64_neg_spec(x: f64) -> f64;
#[verifier::external_body]
pub fn vx_f64_neg(x: f64) -> (r: f64) ensures r == f64_neg_spec(x) { -x }
pub uninterp spec fn f64_min_spec(a: f64, b: f64) -> f64;
pub uninterp spec fn f64_sqrt_spec(a: f64) -> f64;
pub assume_specification[ f64::min ](a: f64, b: f64) -> (r: f64) ensures r == f64_min_spec(a, b);
pub assume_specification[ f64::sqrt ](a: f64) -> (r: f64) ensures r == f64_sqrt_spec(a);
// f64::max: an arbitrary but fixed function of its arguments (no fact about it is assumed)
pub uninterp spec fn f64_max2_spec(a: f64, b: f64) -> f64;
pub assume_specification[ f64::max ](a: f64, b: f64) -> (r: f64) ensures r == f64_max2_spec(a, b);
pub uninterp spec fn f64_is_nan_spec(a: f64) -> bool;
pub assume_specification[ f64::is_nan ](a: f64) -> (r: bool) ensures r == f64_is_nan_spec(a);
pub uninterp spec fn f64_max_const() -> f64;
#[verifier::external_body]
pub fn vx_f64_max() -> (r: f64) ensures r == f64_max_const() { f64::MAX }
// debug-build semantics of an overflowing counter increment: the process panics, i.e. the call does not return
#[verifier::external_body]
pub fn vx_incr_i32_or_panic(i: i32) -> (r: i32) ensures i < i32::MAX, r == i + 1 { i.checked_add(1).unwrap() }

// f64::is_finite: no meaning given (a run-time validation of the input; its failure is a documented panic)
pub uninterp spec fn f64_is_finite_spec(x: f64) -> bool;
#[verifier::external_body]
pub fn vx_f64_is_finite(x: f64) -> (r: bool) ensures r == f64_is_finite_spec(x) { x.is_finite() }
pub assume_specification[ f64::is_finite ](x: f64) -> (r: bool) ensures r == f64_is_finite_spec(x);
