// ---- hashing stubs (assumed contracts): a BuildHasherDefault<H> hashes a value to a pure function of the value ----
pub trait Hasher: Sized {}
pub trait Hash {}
impl<'a, T: Hash> Hash for &'a T {}
impl Hash for u64 {} impl Hash for u32 {} impl Hash for usize {} impl Hash for u16 {} impl Hash for u8 {} impl Hash for i32 {} impl Hash for i64 {}
pub uninterp spec fn hash_spec<H, X>(x: X) -> u64;
#[verifier::external_body]
#[verifier::reject_recursive_types(H)]
pub struct BuildHasherDefault<H> { _p: core::marker::PhantomData<H> }
impl<H> BuildHasherDefault<H> {
    #[verifier::external_body]
    pub fn hash_one<X: Hash>(&self, x: X) -> (r: u64)
        ensures r == hash_spec::<H, X>(x),
    { unimplemented!() }
    #[verifier::external_body]
    pub fn default() -> (r: Self) { unimplemented!() }
}
// murmur3_32 over the native-endian bytes of a u64 with a fixed seed: a pure function of the value
pub uninterp spec fn murmur3_u64_spec(v: u64, seed: u32) -> u32;
#[verifier::external_body]
pub fn vx_murmur3_32_u64(v: u64, seed: u32) -> (r: u32) ensures r == murmur3_u64_spec(v, seed) { unimplemented!() }
