// ---- hashing stubs (assumed contracts): a BuildHasherDefault<H> hashes a value to a pure function of the value ----
pub trait Hasher: Sized {}
pub uninterp spec fn hash_spec<H, X>(x: X) -> u64;
// the state of a hasher obtained from build_hasher(): fresh, then fed one value, then finished
#[verifier::external_body]
#[verifier::reject_recursive_types(H)]
pub struct HasherState<H> { _p: core::marker::PhantomData<H> }
impl<H> HasherState<H> {
    pub uninterp spec fn is_fresh(&self) -> bool;
    pub uninterp spec fn digest(&self) -> u64;
    #[verifier::external_body]
    pub fn finish(&self) -> (r: u64) ensures r == self.digest() { unimplemented!() }
}
pub trait Hash: Sized {
    // feeding a fresh hasher with x and finishing == hash_one(x)
    fn hash<H>(&self, state: &mut HasherState<H>)
        requires old(state).is_fresh(),
        ensures final(state).digest() == hash_spec::<H, &&Self>(&self);
}
impl<'a, T: Hash> Hash for &'a T { #[verifier::external_body] fn hash<H>(&self, state: &mut HasherState<H>) { unimplemented!() } }
impl Hash for u64 { #[verifier::external_body] fn hash<H>(&self, state: &mut HasherState<H>) { unimplemented!() } }
impl Hash for u32 { #[verifier::external_body] fn hash<H>(&self, state: &mut HasherState<H>) { unimplemented!() } }
impl Hash for usize { #[verifier::external_body] fn hash<H>(&self, state: &mut HasherState<H>) { unimplemented!() } }
impl Hash for u16 { #[verifier::external_body] fn hash<H>(&self, state: &mut HasherState<H>) { unimplemented!() } }
impl Hash for u8 { #[verifier::external_body] fn hash<H>(&self, state: &mut HasherState<H>) { unimplemented!() } }
impl Hash for i32 { #[verifier::external_body] fn hash<H>(&self, state: &mut HasherState<H>) { unimplemented!() } }
impl Hash for i64 { #[verifier::external_body] fn hash<H>(&self, state: &mut HasherState<H>) { unimplemented!() } }
#[verifier::external_body]
#[verifier::reject_recursive_types(H)]
pub struct BuildHasherDefault<H> { _p: core::marker::PhantomData<H> }
impl<H> BuildHasherDefault<H> {
    #[verifier::external_body]
    pub fn hash_one<X: Hash>(&self, x: X) -> (r: u64)
        ensures r == hash_spec::<H, X>(x),
    { unimplemented!() }
    #[verifier::external_body]
    pub fn default() -> (r: Self) { unimplemented!() }
    #[verifier::external_body]
    pub fn build_hasher(&self) -> (r: HasherState<H>) ensures r.is_fresh() { unimplemented!() }
}
// murmur3_32 over the native-endian bytes of a u64 with a fixed seed: a pure function of the value
pub uninterp spec fn murmur3_u64_spec(v: u64, seed: u32) -> u32;
#[verifier::external_body]
pub fn vx_murmur3_32_u64(v: u64, seed: u32) -> (r: u32) ensures r == murmur3_u64_spec(v, seed) { unimplemented!() }

// std: `impl<T: Hash> Hash for &T` forwards to T, so hashing a reference is hashing the referent (assumed, documented std behaviour)
pub mod vx_hash_ax {
    use vstd::prelude::*;
    use super::*;
    pub broadcast axiom fn hash_ref<H, X>(x: X) ensures #[trigger] hash_spec::<H, &X>(&x) == hash_spec::<H, X>(x);
}
