global size_of usize == 8;   // assumption: 64-bit target
