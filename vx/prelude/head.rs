global size_of usize == 8;   // assumption: 64-bit target
// propositions used only by the vacuity canaries (a second assembly in which `assert(vx_canary(k))` is placed at every function entry
// and loop body; each must FAIL): nothing is known about them
pub uninterp spec fn vx_canary(k: int) -> bool;
