// ---- file system / serde_json stubs (assumed contracts; the file system is an abstract map from paths to outcomes) ----
#[verifier::external_body]
pub struct Path { _p: u8 }
#[verifier::external_body]
pub struct PathBuf { _p: u8 }
#[verifier::external_body]
pub struct OsStr { _p: u8 }
#[verifier::external_body]
pub struct File { _p: u8 }
#[verifier::external_body]
pub struct IoError { _p: u8 }
impl core::fmt::Debug for IoError { #[verifier::external_body] fn fmt(&self, f: &mut core::fmt::Formatter<'_>) -> core::fmt::Result { unimplemented!() } }
#[verifier::external_body]
pub struct OpenOptions { _p: u8 }
#[verifier::external_body]
#[verifier::reject_recursive_types(R)]
pub struct BufReader<R> { _p: core::marker::PhantomData<R> }
#[verifier::external_body]
#[verifier::reject_recursive_types(W)]
pub struct BufWriter<W> { _p: core::marker::PhantomData<W> }
pub uninterp spec fn path_join(dir: &Path, name: &str) -> PathBuf;
// state of the file system at the time of the call
pub uninterp spec fn fs_can_open_read(p: PathBuf) -> bool;
pub uninterp spec fn fs_can_open_write(p: PathBuf) -> bool;
pub uninterp spec fn path_has_extension(p: &Path) -> bool;   // purely lexical property of the last component
pub uninterp spec fn path_to_buf(p: &Path) -> PathBuf;
impl Path {
    #[verifier::external_body]
    pub fn join(&self, name: &str) -> (r: PathBuf) ensures r == path_join(self, name) { unimplemented!() }
    #[verifier::external_body]
    pub fn extension(&self) -> (r: Option<&OsStr>) ensures r is Some == path_has_extension(self) { unimplemented!() }
    #[verifier::external_body]
    pub fn to_path_buf(&self) -> (r: PathBuf) ensures r == path_to_buf(self) { unimplemented!() }
}
impl PathBuf {
    #[verifier::external_body]
    pub fn as_os_str(&self) -> (r: &OsStr) { unimplemented!() }
}
impl OpenOptions {
    pub uninterp spec fn is_read(&self) -> bool;
    pub uninterp spec fn is_write(&self) -> bool;
    pub uninterp spec fn is_create(&self) -> bool;
    pub uninterp spec fn is_truncate(&self) -> bool;
    #[verifier::external_body]
    pub fn new() -> (r: Self) ensures !r.is_read() && !r.is_write() && !r.is_create() && !r.is_truncate() { unimplemented!() }
    #[verifier::external_body]
    pub fn read(self, b: bool) -> (r: Self) ensures r.is_read() == b, r.is_write() == self.is_write(), r.is_create() == self.is_create(), r.is_truncate() == self.is_truncate() { unimplemented!() }
    #[verifier::external_body]
    pub fn write(self, b: bool) -> (r: Self) ensures r.is_write() == b, r.is_read() == self.is_read(), r.is_create() == self.is_create(), r.is_truncate() == self.is_truncate() { unimplemented!() }
    #[verifier::external_body]
    pub fn create(self, b: bool) -> (r: Self) ensures r.is_create() == b, r.is_read() == self.is_read(), r.is_write() == self.is_write(), r.is_truncate() == self.is_truncate() { unimplemented!() }
    #[verifier::external_body]
    pub fn truncate(self, b: bool) -> (r: Self) ensures r.is_truncate() == b, r.is_read() == self.is_read(), r.is_write() == self.is_write(), r.is_create() == self.is_create() { unimplemented!() }
    // the produced handle remembers what it was opened on and how
    #[verifier::external_body]
    pub fn open(&self, p: &PathBuf) -> (r: Result<File, IoError>)
        ensures
            (self.is_read() && !self.is_write()) ==> (r is Ok <==> fs_can_open_read(*p)),
            self.is_write() ==> (r is Ok <==> fs_can_open_write(*p)),
            r is Ok ==> r->Ok_0.path() == *p && r->Ok_0.opened_truncating() == (self.is_write() && self.is_create() && self.is_truncate()),
    { unimplemented!() }
}
impl File {
    pub uninterp spec fn path(&self) -> PathBuf;
    pub uninterp spec fn opened_truncating(&self) -> bool;
}
impl<R> BufReader<R> {
    pub uninterp spec fn inner(&self) -> R;
    #[verifier::external_body]
    pub fn new(inner: R) -> (r: Self) ensures r.inner() == inner { unimplemented!() }
}
impl<W> BufWriter<W> {
    pub uninterp spec fn inner(&self) -> W;
    #[verifier::external_body]
    pub fn new(inner: W) -> (r: Self) ensures r.inner() == inner { unimplemented!() }
}
#[verifier::external_body]
pub fn vx_str_to_string(s: &str) -> (r: String) { s.to_string() }
pub mod serde_json {
    use vstd::prelude::*;
    use super::*;
    #[verifier::external_body]
    pub struct Error { _p: u8 }
    impl core::fmt::Debug for Error { #[verifier::external_body] fn fmt(&self, f: &mut core::fmt::Formatter<'_>) -> core::fmt::Result { unimplemented!() } }
    // what the bytes currently in the file parse to (None: not a complete, well-typed JSON document -- in particular any strict prefix
    // of a dump that the parser rejects)
    pub uninterp spec fn fs_parse<T>(p: PathBuf) -> Option<T>;
    #[verifier::external_body]
    pub fn from_reader<T>(rdr: BufReader<File>) -> (r: Result<T, Error>)
        ensures r is Ok <==> fs_parse::<T>(rdr.inner().path()) is Some,
            r is Ok ==> r->Ok_0 == fs_parse::<T>(rdr.inner().path())->Some_0,
    { unimplemented!() }
    // ASSUMED: writing an open file succeeds (I/O errors during the dump are outside the property)
    #[verifier::external_body]
    pub fn to_writer<T>(w: &mut BufWriter<File>, v: &T) -> (r: Result<(), Error>)
        ensures r is Ok,
    { unimplemented!() }
}
pub use serde_json::to_writer;
