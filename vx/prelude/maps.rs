// maps given as input: iteration yields the entries in an UNINTERPRETED order (so a proof about a loop over them
// holds for every iteration order -- which is the point for std HashMap)
#[verifier::external_body]
#[verifier::reject_recursive_types(K)]
#[verifier::reject_recursive_types(V)]
#[verifier::reject_recursive_types(S)]
pub struct IndexMap<K, V, S> { _p: core::marker::PhantomData<(K, V, S)> }
#[verifier::external_body]
#[verifier::reject_recursive_types(K)]
#[verifier::reject_recursive_types(V)]
#[verifier::reject_recursive_types(S)]
pub struct HashMap<K, V, S = RandomState> { _p: core::marker::PhantomData<(K, V, S)> }
pub struct RandomState;
impl<K, V, S> IndexMap<K, V, S> {
    pub uninterp spec fn entries(&self) -> Seq<(K, V)>;
    #[verifier::external_body]
    pub fn vx_entries(&self) -> (r: Vec<(&K, &V)>)
        ensures r@.len() == self.entries().len(),
            forall|i: int| 0 <= i < r@.len() ==> *(#[trigger] r@[i]).0 == self.entries()[i].0 && *r@[i].1 == self.entries()[i].1,
    { unimplemented!() }
}
impl<K, V, S> HashMap<K, V, S> {
    pub uninterp spec fn entries(&self) -> Seq<(K, V)>;
    #[verifier::external_body]
    pub fn vx_entries(&self) -> (r: Vec<(&K, &V)>)
        ensures r@.len() == self.entries().len(),
            forall|i: int| 0 <= i < r@.len() ==> *(#[trigger] r@[i]).0 == self.entries()[i].0 && *r@[i].1 == self.entries()[i].1,
    { unimplemented!() }
}
