// ---- num traits as used by the crate (assumed contracts: conversions are deterministic functions) ----
pub trait VxPrim: Sized {}
impl VxPrim for usize {} impl VxPrim for u64 {} impl VxPrim for u32 {} impl VxPrim for i64 {} impl VxPrim for i32 {} impl VxPrim for u16 {}
pub trait Float: Sized + Copy + PartialOrd + PartialEq + core::ops::Div<Output = Self> + core::ops::Add<Output = Self> {
    spec fn from_spec<T>(n: T) -> Self;
    // NumCast::from into a float type never fails for an integer source
    fn from<T: VxPrim>(n: T) -> (r: Option<Self>)
        ensures r == Some(Self::from_spec(n));
    spec fn to_usize_ok(self) -> bool;
    spec fn to_usize_spec(self) -> usize;
    fn to_usize(self) -> (r: Option<usize>)
        ensures r is Some <==> self.to_usize_ok(), r is Some ==> r->Some_0 == self.to_usize_spec();
    spec fn zero_spec() -> Self;
    spec fn one_spec() -> Self;
}
pub uninterp spec fn f64_from<T>(n: T) -> f64;
pub uninterp spec fn f32_from<T>(n: T) -> f32;
pub uninterp spec fn f64_to_usize_ok(x: f64) -> bool;
pub uninterp spec fn f32_to_usize_ok(x: f32) -> bool;
pub uninterp spec fn f64_to_usize(x: f64) -> usize;
pub uninterp spec fn f32_to_usize(x: f32) -> usize;
impl Float for f64 {
    open spec fn from_spec<T>(n: T) -> f64 { f64_from(n) }
    #[verifier::external_body]
    fn from<T: VxPrim>(n: T) -> (r: Option<f64>) { unimplemented!() }
    open spec fn to_usize_ok(self) -> bool { f64_to_usize_ok(self) }
    open spec fn to_usize_spec(self) -> usize { f64_to_usize(self) }
    #[verifier::external_body]
    fn to_usize(self) -> (r: Option<usize>) { unimplemented!() }
    open spec fn zero_spec() -> f64 { 0.0f64 }
    open spec fn one_spec() -> f64 { 1.0f64 }
}
impl Float for f32 {
    open spec fn from_spec<T>(n: T) -> f32 { f32_from(n) }
    #[verifier::external_body]
    fn from<T: VxPrim>(n: T) -> (r: Option<f32>) { unimplemented!() }
    open spec fn to_usize_ok(self) -> bool { f32_to_usize_ok(self) }
    open spec fn to_usize_spec(self) -> usize { f32_to_usize(self) }
    #[verifier::external_body]
    fn to_usize(self) -> (r: Option<usize>) { unimplemented!() }
    open spec fn zero_spec() -> f32 { 0.0f32 }
    open spec fn one_spec() -> f32 { 1.0f32 }
}
pub mod num {
    use vstd::prelude::*;
    use super::Float;
    #[verifier::external_body]
    pub fn zero<F: Float>() -> (r: F) ensures r == F::zero_spec() { unimplemented!() }
    #[verifier::external_body]
    pub fn one<F: Float>() -> (r: F) ensures r == F::one_spec() { unimplemented!() }
    pub trait Zero {}
    pub use super::ToPrimitive;
}
// integer side (num::Integer + Bounded + ToPrimitive + FromPrimitive as the crate uses them)
pub trait Integer: Sized + Copy + PartialOrd + PartialEq {
    spec fn as_int(self) -> int;                 // mathematical value
    spec fn zero_spec() -> Self;
    fn zero() -> (r: Self) ensures r == Self::zero_spec();
    // Ord::max
    fn max(self, other: Self) -> (r: Self)
        ensures r == (if self.as_int() >= other.as_int() { self } else { other });
}
pub trait Unsigned {}
pub trait Bounded: Sized {
    spec fn max_value_spec() -> Self;
    fn max_value() -> (r: Self) ensures r == Self::max_value_spec();
}
pub trait ToPrimitive: Sized {
    spec fn to_u64_spec(self) -> Option<u64>;
    fn to_u64(&self) -> (r: Option<u64>) ensures r == self.to_u64_spec();
    spec fn to_f64_spec(self) -> Option<f64>;
    fn to_f64(&self) -> (r: Option<f64>) ensures r == self.to_f64_spec();
}
pub trait FromPrimitive: Sized {
    spec fn from_u64_spec(n: u64) -> Option<Self>;
    fn from_u64(n: u64) -> (r: Option<Self>) ensures r == Self::from_u64_spec(n);
}

// f64 as a weight type (num::ToPrimitive for f64: to_f64 is the identity)
pub uninterp spec fn f64_to_u64_spec(x: f64) -> Option<u64>;
impl ToPrimitive for f64 {
    open spec fn to_u64_spec(self) -> Option<u64> { f64_to_u64_spec(self) }
    #[verifier::external_body]
    fn to_u64(&self) -> (r: Option<u64>) { unimplemented!() }
    open spec fn to_f64_spec(self) -> Option<f64> { Some(self) }
    #[verifier::external_body]
    fn to_f64(&self) -> (r: Option<f64>) { Some(*self) }
}
