// ---- ordering vocabulary over a generic V: PartialOrd (spec side from vstd's PartialOrdSpec) ----
pub open spec fn lt<V: PartialOrd>(a: V, b: V) -> bool { a.partial_cmp_spec(&b) == Some(Ordering::Less) }
pub open spec fn le<V: PartialOrd>(a: V, b: V) -> bool { !lt(b, a) }
// hypothesis under which the tracker theorems are stated (proved for the integer instances below,
// IEEE fact F2 for non-NaN floats)
pub open spec fn total_order<V: PartialOrd>() -> bool {
    &&& V::obeys_partial_cmp_spec()
    &&& forall|a: V, b: V| #![auto] a.partial_cmp_spec(&b) is Some
    &&& forall|a: V, b: V| #![auto] (a.partial_cmp_spec(&b) == Some(Ordering::Equal)) <==> a == b
    &&& forall|a: V, b: V| #![auto] (a.partial_cmp_spec(&b) == Some(Ordering::Less)) <==> (b.partial_cmp_spec(&a) == Some(Ordering::Greater))
    &&& forall|a: V, b: V, c: V| #![auto] lt(a, b) && lt(b, c) ==> lt(a, c)
}
pub open spec fn vmax<V: PartialOrd>(a: V, b: V) -> V { if lt(a, b) { b } else { a } }
pub open spec fn vmin<V: PartialOrd>(a: V, b: V) -> V { if lt(a, b) { a } else { b } }

pub proof fn vmax_comm<V: PartialOrd>(a: V, b: V)
    requires total_order::<V>(),
    ensures vmax(a, b) == vmax(b, a),
{
    let ab = a.partial_cmp_spec(&b);
    let ba = b.partial_cmp_spec(&a);
    assert(ab is Some && ba is Some);
    if lt(a, b) {
        assert(ba == Some(Ordering::Greater));
    } else if lt(b, a) {
    } else {
        if ab == Some(Ordering::Greater) { assert(ba == Some(Ordering::Less)); }
        assert(ab == Some(Ordering::Equal));
    }
}
pub proof fn lt_irrefl<V: PartialOrd>(a: V)
    requires total_order::<V>(),
    ensures !lt(a, a),
{
    assert(a.partial_cmp_spec(&a) == Some(Ordering::Equal));
}
pub proof fn lt_asym<V: PartialOrd>(a: V, b: V)
    requires total_order::<V>(), lt(a, b),
    ensures !lt(b, a),
{
    assert(b.partial_cmp_spec(&a) == Some(Ordering::Greater));
}
pub proof fn le_total<V: PartialOrd>(a: V, b: V)
    requires total_order::<V>(),
    ensures le(a, b) || le(b, a), le(a, b) && le(b, a) ==> a == b,
{
    let ab = a.partial_cmp_spec(&b);
    let ba = b.partial_cmp_spec(&a);
    assert(ab is Some && ba is Some);
    if lt(a, b) { lt_asym(a, b); }
    if !lt(a, b) && !lt(b, a) {
        if ab == Some(Ordering::Greater) { assert(ba == Some(Ordering::Less)); }
        assert(ab == Some(Ordering::Equal));
    }
}
pub proof fn le_trans<V: PartialOrd>(a: V, b: V, c: V)
    requires total_order::<V>(), le(a, b), le(b, c),
    ensures le(a, c),
{
    // le(a,c) = !lt(c,a).  Suppose lt(c,a).
    if lt(c, a) {
        le_total(a, b);
        le_total(b, c);
        if lt(a, b) {
            // c < a < b  => c < b, contradicts le(b,c)
            assert(lt(c, b));
        } else {
            // a == b (since !lt(b,a) and !lt(a,b))
            assert(a == b);
        }
    }
}
pub proof fn le_vmax<V: PartialOrd>(a: V, b: V)
    requires total_order::<V>(),
    ensures le(a, vmax(a, b)), le(b, vmax(a, b)),
{
    lt_irrefl(a); lt_irrefl(b);
    if lt(a, b) { lt_asym(a, b); }
}
pub proof fn lt_le_trans<V: PartialOrd>(a: V, b: V, c: V)
    requires total_order::<V>(), lt(a, b), le(b, c),
    ensures lt(a, c),
{
    le_total(b, c);
    if lt(b, c) {} else { assert(b == c); }
}
