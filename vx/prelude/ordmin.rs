// ---- stubs used by ProbOrdMinHash2 ----
// Sources of nondeterminism: drawing from them needs `nondeterminism_allowed()`, which no sketch-path function may assume (C12).
pub uninterp spec fn nondeterminism_allowed() -> bool;
#[verifier::external_body]
pub struct ThreadRng { _p: u8 }
impl ThreadRng {
    // obtaining a handle draws nothing
    #[verifier::external_body]
    pub fn default() -> (r: Self) { unimplemented!() }
    #[verifier::external_body]
    pub fn next_u64(&mut self) -> (r: u64)
        requires nondeterminism_allowed(),
    { unimplemented!() }
}
impl Clone for ThreadRng {
    #[verifier::external_body]
    fn clone(&self) -> (r: Self) { unimplemented!() }
}
// WyHash as a pure function of (seed, sequence of u64 written)
pub uninterp spec fn wyhash_spec(seed: u64, written: Seq<u64>) -> u64;
#[verifier::external_body]
pub struct WyHash { _p: u8 }
impl WyHash {
    pub uninterp spec fn seed(&self) -> u64;
    pub uninterp spec fn written(&self) -> Seq<u64>;
    #[verifier::external_body]
    pub fn with_seed(seed: u64) -> (r: Self) ensures r.seed() == seed, r.written() == Seq::<u64>::empty() { unimplemented!() }
    #[verifier::external_body]
    pub fn write_u64(&mut self, x: u64) ensures final(self).seed() == old(self).seed(), final(self).written() == old(self).written().push(x) { unimplemented!() }
    #[verifier::external_body]
    pub fn finish(&self) -> (r: u64) ensures r == wyhash_spec(self.seed(), self.written()) { unimplemented!() }
}
// the occurrence counter HashMap<u64, u64>: abstract map; `bump` = the get_mut / insert idiom of hash_set
#[verifier::external_body]
pub struct CounterMap { _p: u8 }
impl CounterMap {
    pub uninterp spec fn view(&self) -> Map<u64, u64>;
    #[verifier::external_body]
    pub fn new() -> (r: Self) ensures r@ == Map::<u64, u64>::empty() { unimplemented!() }
    #[verifier::external_body]
    pub fn clear(&mut self) ensures final(self)@ == Map::<u64, u64>::empty() { unimplemented!() }
    // match m.get_mut(&k) { Some(c) => { *c += 1; *c } _ => { m.insert(k, 1); 1 } }
    #[verifier::external_body]
    pub fn vx_bump(&mut self, k: u64) -> (r: u64)
        requires old(self)@.contains_key(k) ==> old(self)@[k] < u64::MAX,
        ensures r == (if old(self)@.contains_key(k) { (old(self)@[k] + 1) as u64 } else { 1u64 }),
            final(self)@ == old(self)@.insert(k, r),
    { unimplemented!() }
}
// seed bytes: seed[o..o+8] = x.to_ne_bytes()
pub uninterp spec fn ne_bytes_u64(x: u64) -> Seq<u8>;
#[verifier::external_body]
pub fn vx_copy_u64_ne(a: &mut [u8; 32], o: usize, x: u64)
    requires o + 8 <= 32,
    ensures final(a)@ == old(a)@.subrange(0, o as int) + ne_bytes_u64(x) + old(a)@.subrange(o + 8, 32),
{ unimplemented!() }
