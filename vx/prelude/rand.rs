// ---- random generators and distributions: abstract deterministic streams (assumed contracts) ----
// A generator is a state `st()`; every draw is a pure function of (distribution, state): nothing is assumed
// about the distribution of values, only ranges.
pub mod rand {
    use vstd::prelude::*;
    pub trait Rng: Sized {
        spec fn st(&self) -> int;
    }
}
pub use rand::Rng;
pub trait Distribution<T>: Sized {
    spec fn draw(&self, st: int) -> (T, int);
    fn sample<R: Rng>(&self, rng: &mut R) -> (r: T)
        ensures (r, final(rng).st()) == self.draw(old(rng).st());
}
// `rng.sample(distr)` (rand::Rng::sample) == `distr.sample(rng)`
pub trait RngSampleExt: Rng {
    fn sample<T, D: Distribution<T>>(&mut self, distr: D) -> (r: T)
        ensures (r, final(self).st()) == distr.draw(old(self).st());
}
impl<R: Rng> RngSampleExt for R {
    #[verifier::external_body]
    fn sample<T, D: Distribution<T>>(&mut self, distr: D) -> (r: T) { unimplemented!() }
}
pub trait SampleUniform: Sized {
    spec fn valid_range(lo: Self, hi: Self) -> bool;
    spec fn uniform_draw(lo: Self, hi: Self, st: int) -> (Self, int);
    // draws of a generator built with new_inclusive: a different law, no range facts assumed about it
    spec fn uniform_draw_incl(lo: Self, hi: Self, st: int) -> (Self, int);
}
#[verifier::external_body]
#[verifier::reject_recursive_types(T)]
pub struct Uniform<T> { _p: core::marker::PhantomData<T> }
#[verifier::external_body]
pub struct UniformError { }
impl core::fmt::Debug for UniformError {
    #[verifier::external_body]
    fn fmt(&self, f: &mut core::fmt::Formatter<'_>) -> core::fmt::Result { unimplemented!() }
}
impl<T: SampleUniform> Uniform<T> {
    pub uninterp spec fn lo(&self) -> T;
    pub uninterp spec fn hi(&self) -> T;
    pub uninterp spec fn incl(&self) -> bool;
    #[verifier::external_body]
    pub fn new(lo: T, hi: T) -> (r: Result<Uniform<T>, UniformError>)
        ensures r is Ok <==> T::valid_range(lo, hi),
            r is Ok ==> r->Ok_0.lo() == lo && r->Ok_0.hi() == hi && !r->Ok_0.incl(),
    { unimplemented!() }
    #[verifier::external_body]
    pub fn new_inclusive(lo: T, hi: T) -> (r: Result<Uniform<T>, UniformError>)
        ensures r is Ok ==> r->Ok_0.lo() == lo && r->Ok_0.hi() == hi && r->Ok_0.incl(),
    { unimplemented!() }
}
impl<T: SampleUniform> Distribution<T> for Uniform<T> {
    open spec fn draw(&self, st: int) -> (T, int) { if self.incl() { T::uniform_draw_incl(self.lo(), self.hi(), st) } else { T::uniform_draw(self.lo(), self.hi(), st) } }
    #[verifier::external_body]
    fn sample<R: Rng>(&self, rng: &mut R) -> (r: T) { unimplemented!() }
}
impl<T: SampleUniform> Clone for Uniform<T> {
    #[verifier::external_body]
    fn clone(&self) -> (r: Self) ensures r == *self { unimplemented!() }
}
impl<T: SampleUniform> Copy for Uniform<T> {}
pub uninterp spec fn uniform_f64_draw(lo: f64, hi: f64, st: int) -> (f64, int);
pub uninterp spec fn uniform_usize_draw(lo: usize, hi: usize, st: int) -> (usize, int);
pub uninterp spec fn uniform_u64_draw(lo: u64, hi: u64, st: int) -> (u64, int);
pub uninterp spec fn uniform_f64_draw_incl(lo: f64, hi: f64, st: int) -> (f64, int);
pub uninterp spec fn uniform_usize_draw_incl(lo: usize, hi: usize, st: int) -> (usize, int);
pub uninterp spec fn uniform_u64_draw_incl(lo: u64, hi: u64, st: int) -> (u64, int);
pub uninterp spec fn f64_range_ok(lo: f64, hi: f64) -> bool;
impl SampleUniform for f64 {
    open spec fn valid_range(lo: f64, hi: f64) -> bool { f64_range_ok(lo, hi) }
    open spec fn uniform_draw(lo: f64, hi: f64, st: int) -> (f64, int) { uniform_f64_draw(lo, hi, st) }
    open spec fn uniform_draw_incl(lo: f64, hi: f64, st: int) -> (f64, int) { uniform_f64_draw_incl(lo, hi, st) }
}
impl SampleUniform for usize {
    open spec fn valid_range(lo: usize, hi: usize) -> bool { lo < hi }
    open spec fn uniform_draw(lo: usize, hi: usize, st: int) -> (usize, int) { uniform_usize_draw(lo, hi, st) }
    open spec fn uniform_draw_incl(lo: usize, hi: usize, st: int) -> (usize, int) { uniform_usize_draw_incl(lo, hi, st) }
}
impl SampleUniform for u64 {
    open spec fn valid_range(lo: u64, hi: u64) -> bool { lo < hi }
    open spec fn uniform_draw(lo: u64, hi: u64, st: int) -> (u64, int) { uniform_u64_draw(lo, hi, st) }
    open spec fn uniform_draw_incl(lo: u64, hi: u64, st: int) -> (u64, int) { uniform_u64_draw_incl(lo, hi, st) }
}
pub mod vx_rand_ax {
    use vstd::prelude::*;
    use super::*;
    pub broadcast axiom fn unit_range_ok() ensures #[trigger] f64_range_ok(0.0f64, 1.0f64);
    pub broadcast axiom fn uniform01_in_unit(st: int) ensures unit01(#[trigger] uniform_f64_draw(0.0f64, 1.0f64, st).0);
    pub broadcast axiom fn uniform_usize_in_range(lo: usize, hi: usize, st: int)
        requires lo < hi,
        ensures lo <= (#[trigger] uniform_usize_draw(lo, hi, st)).0 < hi;
    pub broadcast axiom fn uniform_u64_in_range(lo: u64, hi: u64, st: int)
        requires lo < hi,
        ensures lo <= (#[trigger] uniform_u64_draw(lo, hi, st)).0 < hi;
    pub broadcast group rand_ranges { unit_range_ok, uniform01_in_unit, uniform_usize_in_range, uniform_u64_in_range }
}

// concrete generators: state after seeding is a pure function of the seed
pub uninterp spec fn xoshiro_seed(s: u64) -> int;
pub uninterp spec fn xoshiro_from_seed(s: Seq<u8>) -> int;
pub uninterp spec fn chacha_seed(s: u64) -> int;
#[verifier::external_body]
pub struct Xoshiro256PlusPlus { _p: u8 }
impl Rng for Xoshiro256PlusPlus { uninterp spec fn st(&self) -> int; }
impl Xoshiro256PlusPlus {
    #[verifier::external_body]
    pub fn seed_from_u64(s: u64) -> (r: Self) ensures r.st() == xoshiro_seed(s) { unimplemented!() }
    #[verifier::external_body]
    pub fn from_seed(s: [u8; 32]) -> (r: Self) ensures r.st() == xoshiro_from_seed(s@) { unimplemented!() }
}
impl Clone for Xoshiro256PlusPlus {
    #[verifier::external_body]
    fn clone(&self) -> (r: Self) ensures r.st() == self.st() { unimplemented!() }
}
#[verifier::external_body]
pub struct ChaCha12Rng { _p: u8 }
impl Rng for ChaCha12Rng { uninterp spec fn st(&self) -> int; }
impl ChaCha12Rng {
    #[verifier::external_body]
    pub fn seed_from_u64(s: u64) -> (r: Self) ensures r.st() == chacha_seed(s) { unimplemented!() }
}
// Exp1 (rand_distr): positive draws
pub struct Exp1;
pub uninterp spec fn exp1_draw(st: int) -> (f64, int);
impl Distribution<f64> for Exp1 {
    open spec fn draw(&self, st: int) -> (f64, int) { exp1_draw(st) }
    #[verifier::external_body]
    fn sample<R: Rng>(&self, rng: &mut R) -> (r: f64) { unimplemented!() }
}
