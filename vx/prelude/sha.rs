// ---- Sha512_256 (sha2 crate) and the byte identity trait Sig as used by ProbMinHash3aSha: the digest is a pure function of the bytes fed ----
pub uninterp spec fn sig_spec<D>(d: D) -> Seq<u8>;
pub trait Sig: Sized {
    // the byte identity of the object (C18 decides what it is for the types of the crate); here only: a function of the object
    fn get_sig(&self) -> (r: Vec<u8>) ensures r@ == sig_spec::<Self>(*self);
}
pub uninterp spec fn sha512_256_spec(bytes: Seq<u8>) -> Seq<u8>;
#[verifier::external_body]
pub struct Sha512_256 { _p: u8 }
#[verifier::external_body]
pub struct ShaOutput { _p: u8 }
impl Sha512_256 {
    pub uninterp spec fn fed(&self) -> Seq<u8>;
    #[verifier::external_body]
    pub fn new() -> (r: Self) ensures r.fed() == Seq::<u8>::empty() { unimplemented!() }
    #[verifier::external_body]
    pub fn update(&mut self, data: &Vec<u8>) ensures final(self).fed() == old(self).fed() + data@ { unimplemented!() }
    #[verifier::external_body]
    pub fn finalize(self) -> (r: ShaOutput) ensures r.bytes() == sha512_256_spec(self.fed()) { unimplemented!() }
}
impl ShaOutput {
    pub uninterp spec fn bytes(&self) -> Seq<u8>;
    #[verifier::external_body]
    pub fn as_slice(&self) -> (r: &[u8]) ensures r@ == self.bytes() { unimplemented!() }
}
pub mod vx_sha_ax {
    use vstd::prelude::*;
    use super::*;
    // a Sha512/256 digest has 32 bytes
    pub broadcast axiom fn sha_len(b: Seq<u8>) ensures (#[trigger] sha512_256_spec(b)).len() == 32;
}
// seed.copy_from_slice(&hashed_slice[..32])
#[verifier::external_body]
pub fn vx_copy_32(a: &mut [u8; 32], s: &[u8])
    requires s@.len() >= 32,
    ensures final(a)@ == s@.subrange(0, 32),
{ a.copy_from_slice(&s[..32]) }
// Clone of the hashed objects: a clone equals its original (hypothesis of the 3aSha contracts; true for the derived Clone of plain data)
pub open spec fn clone_exact<D: Clone>() -> bool { forall|a: D, b: D| #[trigger] call_ensures(D::clone, (&a,), b) ==> a == b }
