"""Witness search and replay on the REAL code: a scratch copy of the working tree gets one in-crate
#[cfg(test)] module (from /verif/replay/<ID>.rs, by #[path]) and is run with `cargo test`.
The search is a confirmer, never the decider."""
import json
import os
import shutil
import subprocess
import time

CACHE_TARGET = ".cache/replay-target"


def scratch_copy(repo, tag):
    d = "/tmp/verif-scratch-%s" % tag
    # the path is fixed per property; concurrent checks of the same property take turns (lock in driver.py)
    shutil.rmtree(d, ignore_errors=True)
    subprocess.run(["rsync", "-a", "--exclude", "target", "--exclude", ".git", repo.rstrip("/") + "/", d + "/"], check=True)
    return d


def inject(d, verif, module_file, modname):
    lib = os.path.join(d, "src", "lib.rs")
    with open(lib, "a") as f:
        f.write('\n#[cfg(test)]\n#[path = "%s"]\nmod %s;\n' % (os.path.join(verif, "replay", module_file), modname))


OVF_ENV = {"CARGO_PROFILE_RELEASE_OVERFLOW_CHECKS": "true"}
OVF_TARGET = ".cache/replay-target-ovf"


def cargo_env(verif, extra=None, P=None):
    env = dict(os.environ)
    env["CARGO_NET_OFFLINE"] = "true"
    env["CARGO_TARGET_DIR"] = os.path.join(verif, CACHE_TARGET)
    env.setdefault("RUST_LOG", "off")
    if P and P.get("replay_overflow_checks"):
        # the replay is built optimised but WITH arithmetic overflow checks (the semantics of `cargo test` / debug builds):
        # an operation that overflows aborts the case, which is then reported as a witness
        env.update(OVF_ENV)
        env["CARGO_TARGET_DIR"] = os.path.join(verif, OVF_TARGET)
    if extra:
        env.update(extra)
    return env


def run_module(pid, P, repo, verif, mode, seed, tier, inp=None, timeout=None):
    mod = P.get("replay_module")
    if not mod:
        return dict(found=False, note="no witness search for this property")
    if timeout is None:
        # a case of the real code that neither returns nor panics within the limit is reported as a hang (progress file)
        timeout = P.get("replay_timeout_thorough" if tier == "thorough" else "replay_timeout", 1800 if tier == "thorough" else 300)
    d = scratch_copy(repo, "replay-" + pid)
    try:
        inject(d, verif, mod, "verif_replay")
        outp = os.path.join(d, "verif_replay_out.json")
        inp_path = os.path.join(d, "verif_replay_in.json")
        with open(inp_path, "w") as f:
            json.dump(inp if inp is not None else {}, f)
        env = cargo_env(verif, dict(VERIF_REPLAY_MODE=mode, VERIF_REPLAY_OUT=outp, VERIF_REPLAY_IN=inp_path,
                                    VERIF_SEED=str(seed), VERIF_TIER=tier), P)
        cmd = ["cargo", "test", "--offline", "--lib", "--release", "verif_replay::", "--", "--nocapture", "--test-threads=1"]
        # the cargo target directory is shared by all properties (one build of the dependencies) and cargo names the test binary
        # independently of the scratch path: build + run is therefore one critical section per target directory
        import fcntl
        os.makedirs(os.path.dirname(env["CARGO_TARGET_DIR"]), exist_ok=True)
        tlock = open(env["CARGO_TARGET_DIR"].rstrip("/") + ".lock", "w")
        fcntl.flock(tlock, fcntl.LOCK_EX)
        # cargo decides freshness by modification times: this copy was prepared while another check may still have been building,
        # so its lib.rs is stamped again now (later than any build that finished before the lock was granted) -- the crate is one
        # compilation unit, a newer lib.rs rebuilds it from this copy's files
        os.utime(os.path.join(d, "src", "lib.rs"), None)
        t0 = time.time()
        try:
            # build first, outside the hang limit (a cold cache or a loaded machine must not look like a hang of the real code)
            try:
                bp = subprocess.run(["cargo", "test", "--offline", "--lib", "--release", "--no-run"], cwd=d, env=env, capture_output=True, text=True, timeout=3000)
                if bp.returncode != 0:
                    return dict(found=False, module_error=True, rc=bp.returncode, wall_s=round(time.time() - t0, 1),
                                cmd=" ".join(cmd), note="replay module did not build: " + bp.stderr[-600:])
            except (subprocess.TimeoutExpired, OSError) as e:
                return dict(found=False, module_error=True, rc=-1, wall_s=round(time.time() - t0, 1), cmd=" ".join(cmd), note="replay build: %s" % e)
            pr = subprocess.Popen(cmd, cwd=d, env=env, stdout=subprocess.PIPE, stderr=subprocess.PIPE, text=True, start_new_session=True)
            try:
                so, se = pr.communicate(timeout=timeout)
                tail = (so[-1500:] + "\n" + se[-1500:])
                rc = pr.returncode
            except subprocess.TimeoutExpired:
                import signal
                try:
                    os.killpg(pr.pid, signal.SIGKILL)
                except ProcessLookupError:
                    pass
                pr.communicate()
                tail = "no return within %d s (hang)" % timeout
                rc = -1
        except OSError as e:
            tail = str(e)
            rc = -1
        finally:
            fcntl.flock(tlock, fcntl.LOCK_UN)
            tlock.close()
        res = dict(found=False, cmd=" ".join(cmd) + " (scratch copy of %s + replay/%s)" % (repo, mod), wall_s=round(time.time() - t0, 1), rc=rc)
        if os.path.exists(outp):
            try:
                o = json.load(open(outp))
                # the module stamps its output with its own source file: an answer from any other module is not an answer
                if not str(o.get("module_file", "")).endswith("replay/" + mod):
                    res["note"] = "witness output was produced by %r, not by replay/%s: ignored" % (o.get("module_file"), mod)
                    res["module_error"] = True
                else:
                    res.update(o)
            except ValueError:
                res["note"] = "unreadable witness output"
        else:
            # a crash of the real code (abort / hang) is itself a witness when the module says which case was running
            res["note"] = "witness module produced no output: " + tail[-600:]
            prog = os.path.join(d, "verif_replay_progress.json")
            if not os.path.exists(prog):
                # neither a result nor a progress file: the module did not build or did not start -- the search did NOT run
                res["module_error"] = True
            if os.path.exists(prog):
                try:
                    pr = json.load(open(prog))
                    res.update(found=True, input=pr.get("input"), observed="process aborted or hung while running this case: " + tail[-300:])
                except ValueError:
                    pass
        return res
    finally:
        shutil.rmtree(d, ignore_errors=True)


def search(pid, P, unlisted, repo, verif, seed, tier, kres):
    # 1. a Kani counterexample, if a Kani unit failed and produced concrete values
    for k in kres or []:
        for f in k.get("failed", []):
            if f.get("counterexample"):
                return dict(found=True, source="kani counterexample", input=f["counterexample"], obligation=f["obligation"],
                            observed=f.get("clause"), cmd=k.get("cmd"))
    hint = dict(obligations=[f["obligation"] for f in unlisted], functions=sorted(set(f["function"] for f in unlisted)))
    r = run_module(pid, P, repo, verif, "search", seed, tier, inp=hint)
    r["verifier_output"] = [f.get("rendered", "")[:800] for f in unlisted[:4]]
    return r


def replay(pid, P, path, repo, verif):
    rp = json.load(open(path))
    w = rp.get("witness") or {}
    print("replay of %s: failed obligations:" % path)
    for f in rp.get("failed_obligations", []):
        print("  %s [%s] at %s" % (f["obligation"], f.get("clause", "")[:160], f.get("site")))
    if not w.get("found"):
        print("no concrete failing input was recorded (verifier output follows); nothing to execute")
        for v in (w.get("verifier_output") or [])[:3]:
            print(v)
        print("VIOLATION property=%s replay=%s no-failing-input-found" % (pid, path))
        return 1
    if w.get("source") == "kani counterexample":
        print("kani counterexample: %s" % json.dumps(w.get("input")))
    r = run_module(pid, P, repo, verif, "replay", 0, "quick", inp=dict(input=w.get("input")))
    if r.get("found"):
        print("reproduced on the real code: input=%s observed=%s expected=%s" % (json.dumps(r.get("input")), r.get("observed"), r.get("expected")))
        print("VIOLATION property=%s replay=%s" % (pid, path))
        return 1
    print("not reproduced on this tree: %s" % (r.get("note") or r.get("observed") or ""))
    return 0


def warm(repo, verif):
    """build the test profile once so that later witness searches only recompile the crate itself"""
    d = scratch_copy(repo, "warm")
    try:
        for P in (None, dict(replay_overflow_checks=True)):
            env = cargo_env(verif, None, P)
            p = subprocess.run(["cargo", "test", "--offline", "--lib", "--release", "--no-run"], cwd=d, env=env, capture_output=True, text=True, timeout=3000)
            if p.returncode != 0:
                print(p.stderr[-2000:])
                return 1
        return 0
    finally:
        shutil.rmtree(d, ignore_errors=True)
