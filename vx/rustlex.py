"""Minimal Rust tokenizer + item finder used by the extractor.

Only what the extraction needs: comments / strings / chars / lifetimes are
recognised so that brace matching is reliable; everything else is split into
identifiers, numbers and punctuation.  Offsets are byte offsets into the
*text* (Python str indices; the repository sources are ASCII/UTF-8 and we only
ever slice on token boundaries).
"""
import re
from dataclasses import dataclass


@dataclass
class Tok:
    kind: str   # 'id', 'num', 'str', 'char', 'life', 'punct', 'comment'
    text: str
    start: int
    end: int
    line: int


_PUNCT3 = ("<<=", ">>=", "...", "..=")
_PUNCT2 = ("::", "->", "=>", "==", "!=", "<=", ">=", "&&", "||", "+=", "-=", "*=", "/=",
           "^=", "|=", "&=", "%=", "<<", ">>", "..")
_ID = re.compile(r"[A-Za-z_][A-Za-z0-9_]*")
_NUM = re.compile(
    r"0x[0-9a-fA-F_]+(?:[iu](?:8|16|32|64|128|size))?"
    r"|0b[01_]+(?:[iu](?:8|16|32|64|128|size))?"
    r"|[0-9][0-9_]*(?:\.(?![.A-Za-z_])[0-9_]*)?(?:[eE][+-]?[0-9_]+)?(?:_?(?:f32|f64|[iu](?:8|16|32|64|128|size)))?"
)


class LexError(Exception):
    pass


def tokenize(text, keep_comments=False):
    toks = []
    i = 0
    n = len(text)
    line = 1
    while i < n:
        c = text[i]
        if c == "\n":
            line += 1
            i += 1
            continue
        if c.isspace():
            i += 1
            continue
        if text.startswith("//", i):
            j = text.find("\n", i)
            if j < 0:
                j = n
            if keep_comments:
                toks.append(Tok("comment", text[i:j], i, j, line))
            i = j
            continue
        if text.startswith("/*", i):
            depth = 1
            j = i + 2
            while j < n and depth > 0:
                if text.startswith("/*", j):
                    depth += 1
                    j += 2
                elif text.startswith("*/", j):
                    depth -= 1
                    j += 2
                else:
                    j += 1
            if keep_comments:
                toks.append(Tok("comment", text[i:j], i, j, line))
            line += text.count("\n", i, j)
            i = j
            continue
        # raw strings / byte strings
        m = re.match(r"b?r(#*)\"", text[i:i + 40])
        if m:
            hashes = m.group(1)
            close = '"' + hashes
            j = text.find(close, i + m.end())
            if j < 0:
                raise LexError("unterminated raw string at line %d" % line)
            j += len(close)
            toks.append(Tok("str", text[i:j], i, j, line))
            line += text.count("\n", i, j)
            i = j
            continue
        if c == '"' or (c == "b" and i + 1 < n and text[i + 1] == '"'):
            j = i + (2 if c == "b" else 1)
            while j < n and text[j] != '"':
                if text[j] == "\\":
                    j += 1
                j += 1
            j += 1
            toks.append(Tok("str", text[i:j], i, j, line))
            line += text.count("\n", i, j)
            i = j
            continue
        if c == "'" or (c == "b" and i + 1 < n and text[i + 1] == "'"):
            k = i + (1 if c == "b" else 0)
            # char literal or lifetime?
            m = re.match(r"'(?:\\(?:x[0-9a-fA-F]{2}|u\{[0-9a-fA-F_]+\}|.)|[^\\'\n])'", text[k:k + 14])
            if m:
                j = k + m.end()
                toks.append(Tok("char", text[i:j], i, j, line))
                i = j
                continue
            m = re.match(r"'[A-Za-z_][A-Za-z0-9_]*", text[k:k + 64])
            if m and c == "'":
                j = k + m.end()
                toks.append(Tok("life", text[i:j], i, j, line))
                i = j
                continue
            raise LexError("bad quote at line %d" % line)
        m = _ID.match(text, i)
        if m:
            j = m.end()
            toks.append(Tok("id", text[i:j], i, j, line))
            i = j
            continue
        if c.isdigit():
            m = _NUM.match(text, i)
            j = m.end()
            toks.append(Tok("num", text[i:j], i, j, line))
            i = j
            continue
        for plist, ln in ((_PUNCT3, 3), (_PUNCT2, 2)):
            s = text[i:i + ln]
            if s in plist:
                toks.append(Tok("punct", s, i, i + ln, line))
                i += ln
                break
        else:
            toks.append(Tok("punct", c, i, i + 1, line))
            i += 1
    return toks


_OPEN = {"(": ")", "[": "]", "{": "}"}
_CLOSE = {")": "(", "]": "[", "}": "{"}


def match_brackets(toks):
    """Return dict open_index -> close_index and close_index -> open_index over (), [], {}."""
    stack = []
    m = {}
    for i, t in enumerate(toks):
        if t.kind != "punct":
            continue
        if t.text in _OPEN:
            stack.append(i)
        elif t.text in _CLOSE:
            if not stack:
                raise LexError("unbalanced %s at line %d" % (t.text, t.line))
            j = stack.pop()
            if _OPEN[toks[j].text] != t.text:
                raise LexError("mismatched %s at line %d" % (t.text, t.line))
            m[j] = i
            m[i] = j
    if stack:
        raise LexError("unclosed bracket at line %d" % toks[stack[-1]].line)
    return m


class Source:
    """A tokenised repository file with item lookup."""

    def __init__(self, path, text):
        self.path = path
        self.text = text
        self.toks = tokenize(text)
        self.match = match_brackets(self.toks)
        self._index_items()

    # ---- item index (top level only; `mod tests` bodies are never entered) ----
    def _index_items(self):
        toks = self.toks
        self.items = []   # dicts: kind, name, hdr_start_tok, body_open_tok, body_close_tok, start_tok, end_tok, extra
        i = 0
        n = len(toks)
        while i < n:
            t = toks[i]
            if t.kind == "punct" and t.text == "#" and i + 1 < n and toks[i + 1].text in ("[", "!"):
                # attribute: skip
                k = i + 1
                if toks[k].text == "!":
                    k += 1
                i = self.match[k] + 1
                continue
            if t.kind == "id" and t.text in ("pub",):
                # pub / pub(crate)
                if i + 1 < n and toks[i + 1].text == "(":
                    i = self.match[i + 1] + 1
                else:
                    i += 1
                continue
            if t.kind == "id" and t.text in ("unsafe", "async", "const") and i + 1 < n and toks[i + 1].text in ("fn", "impl", "unsafe"):
                i += 1
                continue
            if t.kind == "id" and t.text in ("fn", "struct", "trait", "impl", "mod", "enum", "macro_rules"):
                kind = t.text
                start = i
                # find body open brace or terminating ';' at depth 0
                k = i + 1
                while k < n:
                    tk = toks[k]
                    if tk.kind == "punct" and tk.text in ("(", "["):
                        k = self.match[k] + 1
                        continue
                    if tk.kind == "punct" and tk.text == "{":
                        break
                    if tk.kind == "punct" and tk.text == ";":
                        break
                    k += 1
                if k >= n:
                    break
                if toks[k].text == ";":
                    end = k
                    body_open = body_close = None
                else:
                    body_open = k
                    body_close = self.match[k]
                    end = body_close
                    # tuple struct: `struct X(u64);`
                if kind == "macro_rules":
                    # macro_rules! name ( ... ) ;  -- body may be (), handled by paren skip above
                    pass
                name = None
                if kind in ("fn", "struct", "trait", "mod", "enum"):
                    if toks[i + 1].kind == "id":
                        name = toks[i + 1].text
                item = dict(kind=kind, name=name, start=start, body_open=body_open,
                            body_close=body_close, end=end)
                if kind == "impl":
                    item.update(self._impl_header(start, body_open))
                self.items.append(item)
                i = end + 1
                continue
            if t.kind == "id" and t.text in ("use", "type", "static", "const", "extern"):
                # skip to ';' at depth 0
                k = i
                while k < n and not (toks[k].kind == "punct" and toks[k].text == ";"):
                    if toks[k].kind == "punct" and toks[k].text in _OPEN:
                        k = self.match[k]
                    k += 1
                i = k + 1
                continue
            if t.kind == "id" and i + 1 < n and toks[i + 1].text == "!":
                # item macro invocation, e.g. lazy_static! { } or implement_maxvalue_for!(f64);
                k = i + 2
                if k < n and toks[k].kind == "id":
                    k += 1
                if k < n and toks[k].text in _OPEN:
                    k = self.match[k] + 1
                if k < n and toks[k].text == ";":
                    k += 1
                i = k
                continue
            i += 1

    def _skip_angle(self, k):
        """toks[k] is '<'; return index after the matching '>' (handles '>>', '->')."""
        toks = self.toks
        depth = 0
        n = len(toks)
        while k < n:
            tx = toks[k].text
            if toks[k].kind == "punct":
                if tx == "<":
                    depth += 1
                elif tx == ">":
                    depth -= 1
                elif tx == ">>":
                    depth -= 2
                elif tx in ("(", "["):
                    k = self.match[k]
                if depth <= 0 and tx in (">", ">>"):
                    return k + 1
            k += 1
        raise LexError("unterminated generics")

    def _impl_header(self, start, body_open):
        toks = self.toks
        k = start + 1
        if toks[k].text == "<":
            k = self._skip_angle(k)
        hdr = toks[k:body_open]
        # cut where clause
        depth = 0
        cut = len(hdr)
        for idx, t in enumerate(hdr):
            if t.kind == "punct" and t.text == "<":
                depth += 1
            elif t.kind == "punct" and t.text == ">":
                depth -= 1
            elif t.kind == "punct" and t.text == ">>":
                depth -= 2
            elif t.kind == "id" and t.text == "where" and depth == 0:
                cut = idx
                break
        hdr = hdr[:cut]
        depth = 0
        for_idx = None
        for idx, t in enumerate(hdr):
            if t.kind == "punct" and t.text == "<":
                depth += 1
            elif t.kind == "punct" and t.text == ">":
                depth -= 1
            elif t.kind == "punct" and t.text == ">>":
                depth -= 2
            elif t.kind == "id" and t.text == "for" and depth == 0:
                for_idx = idx
        if for_idx is None:
            trait = None
            ty = hdr
        else:
            trait = "".join(t.text for t in hdr[:for_idx])
            ty = hdr[for_idx + 1:]
        tytext = "".join(t.text for t in ty)
        tyname = None
        for t in ty:
            if t.kind == "id":
                tyname = t.text
                break
        return dict(trait=trait, self_ty=tytext, self_name=tyname)

    # ---- lookups ----
    def find_struct(self, name):
        r = [it for it in self.items if it["kind"] == "struct" and it["name"] == name]
        if len(r) != 1:
            raise KeyError("struct %s in %s: %d matches" % (name, self.path, len(r)))
        return r[0]

    def find_trait(self, name):
        r = [it for it in self.items if it["kind"] == "trait" and it["name"] == name]
        if len(r) != 1:
            raise KeyError("trait %s in %s: %d matches" % (name, self.path, len(r)))
        return r[0]

    def find_free_fn(self, name):
        r = [it for it in self.items if it["kind"] == "fn" and it["name"] == name]
        if len(r) != 1:
            raise KeyError("fn %s in %s: %d matches" % (name, self.path, len(r)))
        return r[0]

    def find_impls(self, self_name, trait=None, self_ty=None):
        r = []
        for it in self.items:
            if it["kind"] != "impl":
                continue
            if it["self_name"] != self_name:
                continue
            if self_ty is not None and it["self_ty"] != self_ty:
                continue
            if trait == "-":
                if it["trait"] is not None:
                    continue
            elif trait is not None:
                if it["trait"] is None or not it["trait"].startswith(trait):
                    continue
            r.append(it)
        return r

    def fns_in_impl(self, impl):
        """Yield fn items (same dict shape) declared directly inside an impl body."""
        toks = self.toks
        i = impl["body_open"] + 1
        end = impl["body_close"]
        out = []
        while i < end:
            t = toks[i]
            if t.kind == "punct" and t.text == "#" and toks[i + 1].text == "[":
                i = self.match[i + 1] + 1
                continue
            if t.kind == "id" and t.text == "fn":
                k = i + 1
                while k < end:
                    tk = toks[k]
                    if tk.kind == "punct" and tk.text in ("(", "["):
                        k = self.match[k] + 1
                        continue
                    if tk.kind == "punct" and tk.text in ("{", ";"):
                        break
                    k += 1
                if toks[k].text == ";":
                    out.append(dict(kind="fn", name=toks[i + 1].text, start=i, body_open=None, body_close=None, end=k))
                    i = k + 1
                else:
                    out.append(dict(kind="fn", name=toks[i + 1].text, start=i, body_open=k,
                                    body_close=self.match[k], end=self.match[k]))
                    i = self.match[k] + 1
                continue
            if t.kind == "punct" and t.text in _OPEN:
                i = self.match[i] + 1
                continue
            i += 1
        return out

    def find_method(self, self_name, fn_name, trait=None, self_ty=None):
        cands = []
        for impl in self.find_impls(self_name, trait, self_ty):
            for f in self.fns_in_impl(impl):
                if f["name"] == fn_name:
                    cands.append((impl, f))
        if len(cands) != 1:
            raise KeyError("method %s::%s (trait=%s, ty=%s) in %s: %d matches" % (self_name, fn_name, trait, self_ty, self.path, len(cands)))
        return cands[0]
