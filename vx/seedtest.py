#!/usr/bin/env python3
"""Confirm a seeded change (patch + demo) in a scratch copy and run the property's check against it.
usage: seedtest.py <ID> <dir with patch.diff demo.rs> [--skip-demo]"""
import json, os, shutil, subprocess, sys, time
VERIF = os.path.dirname(os.path.dirname(os.path.abspath(__file__)))
pid, src = sys.argv[1], sys.argv[2]
skip_demo = "--skip-demo" in sys.argv
d = "/tmp/verif-seedtest-%s" % pid
shutil.rmtree(d, ignore_errors=True)
subprocess.run(["rsync", "-a", "--exclude", "target", "--exclude", ".git", "--exclude", "seed_out", "/repo/", d + "/"], check=True)
env = dict(os.environ, CARGO_NET_OFFLINE="true", CARGO_TARGET_DIR=os.path.join(VERIF, ".cache", "seed-target"), RUST_LOG="off")
res = {}
def demo(tag):
    lib = os.path.join(d, "src", "lib.rs")
    orig = open(lib).read()
    open(lib, "a").write('\n#[cfg(test)]\n#[path = "%s"]\nmod seeded_demo;\n' % os.path.join(os.path.abspath(src), "demo.rs"))
    p = subprocess.run(["cargo", "test", "--offline", "--lib", "seeded_demo"], cwd=d, env=env, capture_output=True, text=True, timeout=3000)
    open(lib, "w").write(orig)
    res["demo_" + tag] = "pass" if p.returncode == 0 else "FAIL"
    res["demo_%s_tail" % tag] = (p.stdout[-400:] + p.stderr[-200:]) if p.returncode != 0 else ""
if not skip_demo:
    demo("unchanged")
p = subprocess.run(["patch", "-p1", "-i", os.path.join(os.path.abspath(src), "patch.diff")], cwd=d, capture_output=True, text=True)
res["patch_applies"] = p.returncode == 0
if p.returncode != 0:
    print(p.stdout, p.stderr)
if not skip_demo:
    demo("patched")
t0 = time.time()
c = subprocess.run([os.path.join(VERIF, "check"), pid, "--no-evidence"], env=dict(os.environ, VERIF_REPO=d), capture_output=True, text=True)
res["check_exit"] = c.returncode
res["check_wall_s"] = round(time.time() - t0, 1)
res["check_out"] = [l for l in c.stdout.split("\n") if l.startswith(("VIOLATION", "  failed", "UNDECIDED", "OK"))][:8]
shutil.rmtree(d, ignore_errors=True)
print(json.dumps(res, indent=1))
