#!/usr/bin/env python3
"""Self-test of the machinery: apply each mutant of selftest/mutants.json to a scratch copy of /repo and
run the property's check against it (VERIF_REPO).  breaking mutants must give exit 1 (and, when given, a failed
obligation containing `expect`); benign mutants must give exit 0.  Nothing is written to /repo or to evidence/.
`--seeded` runs the stored seeded changes (seeded/<dir>/patch.diff, applied with patch -p1) instead: each must give exit 1."""
import json
import os
import shutil
import subprocess
import sys

HERE = os.path.dirname(os.path.abspath(__file__))
VERIF = os.path.dirname(HERE)


def main():
    only = sys.argv[1:]
    if "--seeded" in only:
        only.remove("--seeded")
        muts = []
        for dn in sorted(os.listdir(os.path.join(VERIF, "seeded"))):
            pf = os.path.join(VERIF, "seeded", dn, "patch.diff")
            if os.path.exists(pf):
                muts.append(dict(id="seeded-" + dn, property=dn.split("-")[0], kind="breaking", edits=[], patch=pf))
    else:
        muts = json.load(open(os.path.join(VERIF, "selftest", "mutants.json")))
    bad = 0
    for m in muts:
        if only and m["property"] not in only and m["id"] not in only:
            continue
        d = "/tmp/verif-selftest-%s" % m["id"]
        shutil.rmtree(d, ignore_errors=True)
        subprocess.run(["rsync", "-a", "--exclude", "target", "--exclude", ".git", "/repo/", d + "/"], check=True)
        try:
            ok_apply = True
            for e in m["edits"]:
                p = os.path.join(d, e["file"])
                s = open(p).read()
                if s.count(e["old"]) < 1:
                    print("MUTANT %s: pattern not found in %s" % (m["id"], e["file"]))
                    ok_apply = False
                    break
                s = s.replace(e["old"], e["new"], 1 if not e.get("all") else -1)
                open(p, "w").write(s)
            if ok_apply and m.get("patch"):
                pr = subprocess.run(["patch", "-p1", "-s", "-i", m["patch"]], cwd=d, capture_output=True, text=True)
                if pr.returncode != 0:
                    print("MUTANT %s: patch does not apply: %s" % (m["id"], (pr.stdout + pr.stderr)[-300:]))
                    ok_apply = False
            if not ok_apply:
                bad += 1
                continue
            env = dict(os.environ, VERIF_REPO=d)
            p = subprocess.run([os.path.join(VERIF, "check"), m["property"], "--no-evidence"] + (["--tier", m["tier"]] if m.get("tier") else []),
                               env=env, capture_output=True, text=True)
            want = 1 if m["kind"] == "breaking" else 0
            ok = p.returncode == want
            if m["kind"] == "breaking-or-undecided":
                ok = p.returncode in (1, 2)
            if m["kind"] == "benign-undecided":
                ok = True   # informational: semantics changed in a way the property may or may not allow
            if ok and m.get("expect"):
                ok = m["expect"] in p.stdout
            print("%-4s %-9s %-40s exit=%d %s" % (m["property"], m["kind"], m["id"], p.returncode, "as expected" if ok else "UNEXPECTED"))
            if not ok:
                bad += 1
                print(p.stdout[-3000:])
                print(p.stderr[-1000:])
        finally:
            shutil.rmtree(d, ignore_errors=True)
    print("selftest: %d unexpected" % bad)
    return 1 if bad else 0


if __name__ == "__main__":
    sys.exit(main())
