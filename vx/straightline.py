"""Generator for straight-line integer mixing functions (C19).

For a function whose body is
    let mut v = e; [let mut w: T = e;] v = e; v ^= e; ...; v
the statements are parsed (tiny precedence parser over the subset
  ident | literal | (e) | !e | e.wrapping_{add,sub,mul}(e) | e.saturating_{add,sub}(e)
  | e.checked_{add,sub}(e).unwrap_or_default() | e.checked_{add,sub}(e).unwrap_or(e) | e ^ e | e & e | e | e | e << c | e >> c )
and four renderings are produced, all *generated from the repository text*:

  raw      the statement text as written (used for the spec twin the real body is verified against)
  builtin  wrapping_add(a,b) -> add(a,b) ...            (what by(bit_vector) accepts)
  linear   builtin with  x << c -> mul(x, 2^c)  and  !x -> sub(sub(0,x),1)   (what Z3 proves fast)

Nothing here is trusted: every rendering is linked to the previous one by a
generated lemma that Verus must discharge.
"""
from rustlex import tokenize, match_brackets
from extract import ExtractError


class Node:
    def __init__(self, kind, *args):
        self.kind = kind
        self.args = args


BINPREC = {"|": 1, "^": 2, "&": 3, "<<": 4, ">>": 4}


class Parser:
    def __init__(self, toks):
        self.toks = toks
        self.i = 0

    def peek(self):
        return self.toks[self.i] if self.i < len(self.toks) else None

    def eat(self, text=None):
        t = self.peek()
        if t is None or (text is not None and t.text != text):
            raise ExtractError("unsupported construct in straight-line function near `%s`" % (t.text if t else "<eof>"))
        self.i += 1
        return t

    def expr(self, minprec=1):
        lhs = self.unary()
        while True:
            t = self.peek()
            if t is None or t.kind != "punct" or t.text not in BINPREC or BINPREC[t.text] < minprec:
                break
            op = self.eat().text
            rhs = self.expr(BINPREC[op] + 1)
            lhs = Node("bin", op, lhs, rhs)
        return lhs

    def unary(self):
        t = self.peek()
        if t is not None and t.kind == "punct" and t.text == "!":
            self.eat()
            return Node("not", self.unary())
        return self.postfix()

    def postfix(self):
        t = self.eat()
        if t.kind == "punct" and t.text == "(":
            e = self.expr()
            self.eat(")")
            node = Node("paren", e)
        elif t.kind == "id":
            node = Node("var", t.text)
        elif t.kind == "num":
            node = Node("lit", t.text)
        else:
            raise ExtractError("unsupported construct in straight-line function near `%s`" % t.text)
        while self.peek() is not None and self.peek().text == ".":
            self.eat(".")
            m = self.eat()
            if m.text in ("checked_sub", "checked_add"):
                node = self.checked_tail(m.text, node)
                continue
            if m.text not in ("wrapping_add", "wrapping_sub", "wrapping_mul", "saturating_sub", "saturating_add"):
                raise ExtractError("unsupported method `%s` in straight-line function" % m.text)
            self.eat("(")
            a = self.expr()
            self.eat(")")
            node = Node("call", m.text, node, a)
        return node

    def checked_tail(self, op, recv):
        # e.checked_{add,sub}(a) is only accepted when its Option is consumed at once by
        # .unwrap_or_default() or .unwrap_or(d): the value on overflow is then 0 resp. d.
        self.eat("(")
        a = self.expr()
        self.eat(")")
        self.eat(".")
        u = self.eat()
        if u.text == "unwrap_or_default":
            self.eat("(")
            self.eat(")")
            d = Node("lit", "0")
        elif u.text == "unwrap_or":
            self.eat("(")
            d = self.expr()
            self.eat(")")
        else:
            raise ExtractError("unsupported method `%s` after %s in straight-line function" % (u.text, op))
        return Node("checked", op, recv, a, d)


def lit_value(s):
    s2 = s.replace("_", "")
    for suf in ("u64", "u32", "usize", "u16", "u8", "i64", "i32"):
        if s2.endswith(suf):
            s2 = s2[:-len(suf)]
    return int(s2, 0)


def render(n, mode, ty):
    k = n.kind
    if k == "var":
        return n.args[0]
    if k == "lit":
        return "%d%s" % (lit_value(n.args[0]), ty)
    if k == "paren":
        return "(" + render(n.args[0], mode, ty) + ")"
    if k == "not":
        a = render(n.args[0], mode, ty)
        if mode == "linear":
            return "sub(sub(0%s, %s), 1%s)" % (ty, a, ty)
        return "(!%s)" % a
    if k == "call":
        a, b = render(n.args[1], mode, ty), render(n.args[2], mode, ty)
        if n.args[0] == "saturating_sub":
            return "(if %s < %s { 0%s } else { sub(%s, %s) })" % (a, b, ty, a, b)
        if n.args[0] == "saturating_add":
            return "(if add(%s, %s) < %s { sub(0%s, 1%s) } else { add(%s, %s) })" % (a, b, a, ty, ty, a, b)
        f = {"wrapping_add": "add", "wrapping_sub": "sub", "wrapping_mul": "mul"}[n.args[0]]
        return "%s(%s, %s)" % (f, a, b)
    if k == "checked":
        a, b, d = (render(x, mode, ty) for x in n.args[1:4])
        if n.args[0] == "checked_sub":
            return "(if %s < %s { %s } else { sub(%s, %s) })" % (a, b, d, a, b)
        return "(if add(%s, %s) < %s { %s } else { add(%s, %s) })" % (a, b, a, d, a, b)
    if k == "bin":
        op, a, b = n.args
        if op in ("<<", ">>") and b.kind != "lit":
            raise ExtractError("unsupported: shift by a non-constant in straight-line function")
        if op == "<<" and mode == "linear":
            return "mul(%s, %d%s)" % (render(a, mode, ty), 1 << lit_value(b.args[0]), ty)
        return "(%s %s %s)" % (render(a, mode, ty), op, render(b, mode, ty))
    raise ExtractError("internal: node kind " + k)


class Stmt:
    def __init__(self, var, node, raw, line):
        self.var = var
        self.node = node
        self.raw = raw   # raw rhs text (with `v op` prefix expanded for op-assign)
        self.line = line


def parse_straightline(src, item):
    """-> (argname, argty, retty, [Stmt], result_var)"""
    toks = src.toks
    bo, bc = item["body_open"], item["body_close"]
    # signature: fn name(arg: ty) -> ty
    p = item["start"] + 2
    if toks[p].text != "(":
        raise ExtractError("unsupported signature for straight-line function %s" % item["name"])
    argname = toks[p + 1].text
    argty = toks[p + 3].text
    pc = src.match[p]
    if pc != p + 4 or toks[pc + 1].text != "->":
        raise ExtractError("unsupported signature for straight-line function %s" % item["name"])
    retty = toks[pc + 2].text
    stmts = []
    i = bo + 1
    result = None
    while i < bc:
        # statement tokens up to ';' or end
        j = i
        while j < bc and toks[j].text != ";":
            if toks[j].text in ("(", "["):
                j = src.match[j]
            j += 1
        seg = toks[i:j]
        if j >= bc:
            if len(seg) != 1 or seg[0].kind != "id":
                raise ExtractError("unsupported tail expression in %s" % item["name"])
            result = seg[0].text
            break
        k = 0
        if seg[0].text == "let":
            k = 1
            if seg[k].text == "mut":
                k += 1
            var = seg[k].text
            k += 1
            if seg[k].text == ":":
                k += 2
            if seg[k].text != "=":
                raise ExtractError("unsupported let form in %s" % item["name"])
            rhs = seg[k + 1:]
            prefix = None
        else:
            var = seg[0].text
            op = seg[1].text
            if op == "=":
                rhs = seg[2:]
                prefix = None
            elif op in ("^=", "|=", "&="):
                rhs = seg[2:]
                prefix = op[0]
            else:
                raise ExtractError("unsupported statement `%s %s` in %s" % (var, op, item["name"]))
        node = Parser(list(rhs)).expr()
        raw = src.text[rhs[0].start:rhs[-1].end]
        if prefix:
            node = Node("bin", prefix, Node("var", var), Node("paren", node))
            raw = "%s %s (%s)" % (var, prefix, raw)
        stmts.append(Stmt(var, node, raw, seg[0].line))
        i = j + 1
    if result is None:
        raise ExtractError("no tail expression in %s" % item["name"])
    return argname, argty, retty, stmts, result


def parse_groups(s):
    out = []
    for part in s.split(","):
        if "-" in part:
            a, b = part.split("-")
            out.append((int(a), int(b)))
        else:
            out.append((int(part), int(part)))
    return out


def has_checked(n):
    return n.kind == "checked" or any(isinstance(a, Node) and has_checked(a) for a in n.args)


def render_asis(n, ty):
    """source syntax again, except that a consumed checked_{add,sub} (an exec-only Option chain, not callable
    in a spec function) becomes the conditional it denotes; the real body is then verified against it
    through vstd's own specifications of checked_*, unwrap_or and unwrap_or_default."""
    k = n.kind
    if k == "var":
        return n.args[0]
    if k == "lit":
        return "%d%s" % (lit_value(n.args[0]), ty)
    if k == "paren":
        return "(" + render_asis(n.args[0], ty) + ")"
    if k == "not":
        return "(!%s)" % render_asis(n.args[0], ty)
    if k == "call":
        return "%s.%s(%s)" % (render_asis(n.args[1], ty), n.args[0], render_asis(n.args[2], ty))
    if k == "checked":
        a, b, d = (render_asis(x, ty) for x in n.args[1:4])
        if n.args[0] == "checked_sub":
            return "(if (%s) < (%s) { %s } else { (%s).wrapping_sub(%s) })" % (a, b, d, a, b)
        return "(if (%s).wrapping_add(%s) < (%s) { %s } else { (%s).wrapping_add(%s) })" % (a, b, a, d, a, b)
    if k == "bin":
        return "(%s %s %s)" % (render_asis(n.args[1], ty), n.args[0], render_asis(n.args[2], ty))
    raise ExtractError("internal: node kind " + k)


def lets(stmts, mode, ty):
    if mode == "raw":
        return " ".join("let %s = %s;" % (s.var, render_asis(s.node, ty) if has_checked(s.node) else s.raw) for s in stmts)
    return " ".join("let %s = %s;" % (s.var, render(s.node, mode, ty)) for s in stmts)


def check_group_closed(stmts, state, extra_in):
    """every variable read in the group is the state var (or extra_in) or assigned earlier in the group"""
    defined = {state} | set(extra_in)

    def walk(n):
        if n.kind == "var":
            if n.args[0] not in defined:
                raise ExtractError("straight-line group reads `%s` before assigning it" % n.args[0])
        elif n.kind in ("paren", "not"):
            walk(n.args[0])
        elif n.kind == "call":
            walk(n.args[1]); walk(n.args[2])
        elif n.kind == "checked":
            walk(n.args[1]); walk(n.args[2]); walk(n.args[3])
        elif n.kind == "bin":
            walk(n.args[1]); walk(n.args[2])
    for s in stmts:
        walk(s.node)
        defined.add(s.var)


def gen_invpair(asm, args):
    """//@invpair <src> <fwd fn> <inv fn> prefix=.. fgroups=.. igroups=..   (igroups[i] inverts fgroups[i])"""
    src = asm.source(args[0])
    kw = dict(a.split("=", 1) for a in args[3:])
    f_it = src.find_free_fn(args[1])
    i_it = src.find_free_fn(args[2])
    pf = kw["prefix"]
    fa, fty, frt, fst, fres = parse_straightline(src, f_it)
    ia, ity, irt, ist, ires = parse_straightline(src, i_it)
    if not (fty == frt == ity == irt):
        raise ExtractError("unsupported: mixed types in invertible pair")
    ty = fty
    fg = parse_groups(kw["fgroups"])
    ig = parse_groups(kw["igroups"])
    if len(fg) != len(ig):
        raise ExtractError("template: fgroups/igroups length mismatch")
    # groups must tile the statement lists
    def tiles(groups, n, what):
        cover = sorted(groups)
        pos = 1
        for (a, b) in cover:
            if a != pos or b < a:
                raise ExtractError("lost anchor: statement groups of %s do not tile 1..%d (function changed shape)" % (what, n))
            pos = b + 1
        if pos != n + 1:
            raise ExtractError("lost anchor: statement groups of %s do not tile 1..%d (function changed shape)" % (what, n))
    tiles(fg, len(fst), args[1])
    tiles(ig, len(ist), args[2])
    out = []
    org = ("ins", "generated:invpair:%s" % pf)

    def emit(s):
        for l in s.split("\n"):
            out.append(l)

    def group_fns(name, arg, stmts, groups, res):
        # state var = res; first group (containing stmt 1) reads the function argument
        order = sorted(range(len(groups)), key=lambda g: groups[g][0])
        names = {}
        for rank, g in enumerate(order):
            a, b = groups[g]
            ss = stmts[a - 1:b]
            invar = arg if a == 1 else res
            check_group_closed(ss, invar, [])
            gname = "%s_%s_g%d" % (pf, name, rank + 1)
            names[g] = (gname, invar, ss)
            emit("pub open spec fn %s(%s: %s) -> %s { %s %s }" % (gname, invar, ty, ty, lets(ss, "raw", ty), res))
        comp = arg
        for g in order:
            comp = "%s(%s)" % (names[g][0], comp)
        emit("pub open spec fn %s_%s_spec(%s: %s) -> %s { %s }" % (pf, name, arg, ty, ty, comp))
        return names, order

    emit("// ---- generated from %s: %s / %s (statement groups; every rendering below is proof-checked) ----" % (args[0], args[1], args[2]))
    fnames, forder = group_fns("fwd", fa, fst, fg, fres)
    inames, iorder = group_fns("inv", ia, ist, ig, ires)
    # link lemmas raw -> linear, per group: one bit-vector fact per operator occurrence
    shl_consts = set()

    def collect(n, acc):
        """post-order list of (kind, operand node, const) for `<<` and `!` nodes"""
        if n.kind in ("paren", "not"):
            collect(n.args[0], acc)
            if n.kind == "not":
                acc.append(("not", n.args[0], None))
        elif n.kind == "call":
            collect(n.args[1], acc); collect(n.args[2], acc)
        elif n.kind == "checked":
            collect(n.args[1], acc); collect(n.args[2], acc); collect(n.args[3], acc)
        elif n.kind == "bin":
            collect(n.args[1], acc); collect(n.args[2], acc)
            if n.args[0] == "<<":
                c = lit_value(n.args[2].args[0])
                shl_consts.add(c)
                acc.append(("shl", n.args[1], c))

    link_lines = []
    for names in (fnames, inames):
        res = fres if names is fnames else ires
        for g, (gname, invar, ss) in names.items():
            body = ["broadcast use vxp::vx_wrapping_bridge;"]
            for st in ss:
                acc = []
                collect(st.node, acc)
                for (kind, opnd, c) in acc:
                    if kind == "not":
                        body.append("%s_not(%s);" % (pf, render(opnd, "linear", ty)))
                    else:
                        body.append("%s_shl%d(%s);" % (pf, c, render(opnd, "linear", ty)))
                body.append("let %s = %s;" % (st.var, render(st.node, "linear", ty)))
            link_lines.append("pub proof fn %s_link(%s: %s) ensures %s(%s) == ({ %s %s }) { %s }" % (
                gname, invar, ty, gname, invar, lets(ss, "linear", ty), res, " ".join(body)))
    emit("pub proof fn %s_not(x: %s) by(bit_vector) ensures (!x) == sub(sub(0%s, x), 1%s) {}" % (pf, ty, ty, ty))
    for c in sorted(shl_consts):
        emit("pub proof fn %s_shl%d(x: %s) by(bit_vector) ensures (x << %d%s) == mul(x, %d%s) {}" % (pf, c, ty, c, ty, 1 << c, ty))
    for l in link_lines:
        emit(l)
    # pair lemmas in linear form (by bit_vector)
    for g in range(len(fg)):
        fname, fin, fss = fnames[g]
        iname, iin, iss = inames[g]
        # rename entry variables to a common symbol x
        emit("pub proof fn %s_pair%d_fi(x: %s) by(bit_vector) ensures ({ let %s = x; %s let %s = %s; %s %s }) == x {}" % (
            pf, g + 1, ty, fin, lets(fss, "linear", ty), iin, fres, lets(iss, "linear", ty), ires))
        emit("pub proof fn %s_pair%d_if(x: %s) by(bit_vector) ensures ({ let %s = x; %s let %s = %s; %s %s }) == x {}" % (
            pf, g + 1, ty, iin, lets(iss, "linear", ty), fin, ires, lets(fss, "linear", ty), fres))
        emit("pub proof fn %s_pair%d(x: %s) ensures %s(%s(x)) == x, %s(%s(x)) == x { %s_link(x); %s_link(%s(x)); %s_pair%d_fi(x); %s_link(x); %s_link(%s(x)); %s_pair%d_if(x); }" % (
            pf, g + 1, ty, iname, fname, fname, iname,
            fname, iname, fname, pf, g + 1,
            iname, fname, iname, pf, g + 1))
    # the inverse must undo the forward groups in reverse order
    n = len(fg)
    for r in range(n):
        if iorder[r] != forder[n - 1 - r]:
            raise ExtractError("template: inverse groups are not the forward groups in reverse order")
    # composition lemma
    body = []
    # forward chain values
    body.append("let a0 = x;")
    for r, g in enumerate(forder):
        body.append("let a%d = %s(a%d);" % (r + 1, fnames[g][0], r))
    for r in range(n - 1, -1, -1):
        g = forder[r]
        body.append("%s_pair%d(a%d);" % (pf, g + 1, r))
    body.append("let b0 = x;")
    for r, g in enumerate(iorder):
        body.append("let b%d = %s(b%d);" % (r + 1, inames[g][0], r))
    for r in range(n - 1, -1, -1):
        g = iorder[r]
        body.append("%s_pair%d(b%d);" % (pf, g + 1, r))
    emit("pub proof fn %s_roundtrip(x: %s) ensures %s_inv_spec(%s_fwd_spec(x)) == x, %s_fwd_spec(%s_inv_spec(x)) == x {\n    %s\n}" % (
        pf, ty, pf, pf, pf, pf, "\n    ".join(body)))
    for l in out:
        asm.emit_verbatim(l, org)
    asm.generated_counts = getattr(asm, "generated_counts", {})
    asm.generated_counts["invpair:%s" % pf] = dict(forward_statements=len(fst), inverse_statements=len(ist), pairs=n)
