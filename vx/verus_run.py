"""Run Verus on an assembled unit, name the failing obligations, run the vacuity canaries."""
import json
import os
import re
import subprocess
import time

from extract import assemble, ExtractError
from rustlex import LexError

VERUS = os.environ.get("VERIF_VERUS", "verus")

VERIFICATION_MESSAGES = (
    "postcondition not satisfied",
    "precondition not satisfied",
    "loop invariant not satisfied",
    "invariant not satisfied at end of loop body",
    "invariant not satisfied before loop",
    "assertion failed",
    "possible arithmetic underflow/overflow",
    "possible division by zero",
    "decreases not satisfied",
    "bitvector assertion not satisfied",
    "bitvector ensures not satisfied",
    "recommendation not met",
    "possible bit shift underflow/overflow",
    "could not prove termination",
    "loop must have a decreases clause",
    "unable to prove assertion safety condition",
    "assertion failure",
    "failed precondition",
    "loop ensures not satisfied",
    "possible overflow",
    "constructed value may fail to meet its declared type invariant",
)


class UnitResult:
    def __init__(self, name):
        self.name = name
        self.status = "ok"          # ok | failed | undecided
        self.reason = ""
        self.failed = []            # list of dict(obligation, function, kind, clause, site, rendered)
        self.verified = 0
        self.errors = 0
        self.functions = []         # per_function dicts
        self.smt_ms = 0
        self.wall_s = 0.0
        self.cmd = ""
        self.rule_counts = {}
        self.extracted = []
        self.assumed = []
        self.contract_clauses = 0
        self.canaries_expected = 0
        self.canaries_failed_as_expected = 0
        self.generated = {}
        self.struct_fields = {}
        self.text = ""


_FN_RE = re.compile(r"\bfn\s+([A-Za-z_][A-Za-z0-9_]*)")


def enclosing_fn(lines, asm, lineno):
    """display name of the function containing output line `lineno` (1-based)"""
    for (a, b, disp, path, sl) in asm.fn_ranges:
        if a <= lineno <= b:
            return disp
    # template / generated function: scan backwards for `fn name` at low indentation
    k = lineno
    while k >= 1:
        m = _FN_RE.search(lines[k - 1])
        if m and re.match(r"\s*(pub(\([a-z]+\))?\s+)?(open\s+|closed\s+|broadcast\s+)*(spec|proof|exec)?\s*(axiom\s+)?fn\b", lines[k - 1].strip()):
            return m.group(1)
        k -= 1
    return "<top>"


def origin_str(asm, lineno):
    lm = asm.linemap()
    if 1 <= lineno <= len(lm) and lm[lineno - 1]:
        o = lm[lineno - 1]
        if o[0] == "src":
            return "%s:%d" % (o[1], o[2])
        if o[0] == "tpl":
            return "%s:%d" % (o[1], o[2])
        if o[0] == "ins":
            return str(o[1])
    return "generated:%d" % lineno


def norm(s):
    return re.sub(r"\s+", " ", s).strip()


def scan_assumptions(text):
    """mechanical scan for every trusted construct in the assembled file"""
    out = []
    lines = text.split("\n")
    for i, l in enumerate(lines):
        s = l.strip()
        if s.startswith("//"):
            continue
        m = re.search(r"assume_specification\s*(<[^>]*>)?\s*\[\s*([^\]]+)\]", s)
        if m:
            out.append("assume_specification " + norm(m.group(2)))
        if "external_body" in s:
            # name of the next fn/struct
            for k in range(i, min(i + 6, len(lines))):
                m2 = re.search(r"\b(fn|struct)\s+([A-Za-z_][A-Za-z0-9_]*)", lines[k])
                if m2:
                    out.append("external_body %s %s" % (m2.group(1), m2.group(2)))
                    break
        m = re.search(r"\baxiom\s+fn\s+([A-Za-z_][A-Za-z0-9_]*)", s)
        if m:
            out.append("axiom " + m.group(1))
        m = re.search(r"\buninterp\s+spec\s+fn\s+([A-Za-z_][A-Za-z0-9_]*)", s)
        if m:
            out.append("uninterp " + m.group(1))
        if re.search(r"\badmit\s*\(", s) or re.search(r"(?<![A-Za-z_])assume\s*\(", s):
            out.append("FORBIDDEN admit/assume at generated line %d" % (i + 1))
        if "exec_allows_no_decreases_clause" in s:
            out.append("termination not proved (exec_allows_no_decreases_clause) near generated line %d" % (i + 1))
    # dedupe, keep order
    seen = set()
    res = []
    for a in out:
        if a not in seen:
            seen.add(a)
            res.append(a)
    return res


def count_clauses(text):
    n = 0
    for l in text.split("\n"):
        s = l.strip()
        if s.startswith("//"):
            continue
        n += len(re.findall(r"\b(requires|ensures|invariant|invariant_except_break|decreases)\b", s))
        n += len(re.findall(r"\bassert\s*(\(|forall)", s))
    return n


def run_verus(path, workdir, rlimit=None, timeout=600, multiple_errors=40):
    cmd = [VERUS, os.path.basename(path), "--error-format=json", "--output-json", "--time-expanded",
           "--multiple-errors", str(multiple_errors)]
    if rlimit:
        cmd += ["--rlimit", str(rlimit)]
    t0 = time.time()
    try:
        p = subprocess.run(cmd, cwd=workdir, capture_output=True, text=True, timeout=timeout)
        out, err, rc = p.stdout, p.stderr, p.returncode
        timed_out = False
    except subprocess.TimeoutExpired as e:
        out = e.stdout or ""
        err = e.stderr or ""
        if isinstance(out, bytes):
            out = out.decode(errors="replace")
        if isinstance(err, bytes):
            err = err.decode(errors="replace")
        rc = -1
        timed_out = True
    wall = time.time() - t0
    diags = []
    for l in err.split("\n"):
        l = l.strip()
        if l.startswith("{") and '"$message_type"' in l:
            try:
                diags.append(json.loads(l))
            except ValueError:
                pass
    js = None
    try:
        k = out.index("{")
        js = json.loads(out[k:])
    except (ValueError, IndexError):
        js = None
    return dict(cmd=" ".join(cmd), rc=rc, json=js, diags=diags, stderr=err, wall=wall, timed_out=timed_out)


def verify_unit(name, tpl, repo, vxdir, workdir, rlimit=None, canaries=True, timeout=600):
    res = UnitResult(name)
    t0 = time.time()
    try:
        asm = assemble(repo, vxdir, tpl)
    except (ExtractError, KeyError, LexError, IndexError) as e:
        res.status = "undecided"
        res.reason = "extraction: %s" % e
        return res
    text = asm.text()
    res.text = text
    res.rule_counts = dict(asm.rule_counts)
    res.extracted = list(asm.extracted)
    res.assumed = scan_assumptions(text)
    res.contract_clauses = count_clauses(text)
    res.generated = getattr(asm, "generated_counts", {})
    res.struct_fields = dict(asm.struct_fields)
    path = os.path.join(workdir, name + ".rs")
    with open(path, "w") as f:
        f.write(text)
    r = run_verus(path, workdir, rlimit=rlimit, timeout=timeout)
    res.cmd = r["cmd"] + "   (file assembled from %s and %s)" % (os.path.relpath(tpl, os.path.dirname(vxdir)), repo)
    lines = text.split("\n")
    classify(res, r, asm, lines)
    if any(a.startswith("FORBIDDEN") for a in res.assumed):
        res.status = "undecided"
        res.reason = "admit/assume present in assembled file"
    # canaries
    if canaries and res.status == "ok":
        casm = assemble(repo, vxdir, tpl, canary=True)
        ctext = casm.text()
        cl = canary_marks(ctext)
        cpath = os.path.join(workdir, name + "_canary.rs")
        with open(cpath, "w") as f:
            f.write(ctext)
        rc = run_verus(cpath, workdir, rlimit=rlimit, timeout=timeout, multiple_errors=200)
        res.canaries_expected = len(cl)
        hit = set()
        for d in rc["diags"]:
            if d.get("level") != "error":
                continue
            for sp in d.get("spans", []):
                if sp.get("line_start") in cl:
                    hit.add(sp["line_start"])
        res.canaries_failed_as_expected = len(hit)
        missing = sorted(set(cl) - hit)
        if rc["json"] is None or missing:
            res.status = "undecided"
            if rc["json"] is None:
                res.reason = "canary run did not complete: " + rc["stderr"][-400:]
            else:
                res.reason = "vacuity canary verified (contradictory precondition or invariant) at: " + ", ".join(
                    "%s (%s)" % (cl[m], origin_str(casm, m)) for m in missing)
        res.cmd += " ; canaries: " + rc["cmd"].replace(name + ".rs", name + "_canary.rs")
    res.wall_s = time.time() - t0
    return res


def classify(res, r, asm, lines):
    js = r["json"]
    if r["timed_out"]:
        res.status = "undecided"
        res.reason = "verus timed out"
        return
    if js is None:
        res.status = "undecided"
        msgs = [d.get("message", "") for d in r["diags"] if d.get("level") == "error"]
        res.reason = "verus produced no result (compile error / unsupported construct): " + "; ".join(msgs[:3]) + (r["stderr"][-300:] if not msgs else "")
        return
    vr = js.get("verification-results", {})
    res.verified = vr.get("verified", 0)
    res.errors = vr.get("errors", 0)
    for mod in js.get("times-ms", {}).get("smt", {}).get("smt-run-module-times", []):
        for fb in mod.get("function-breakdown", []):
            res.functions.append(dict(function=fb["function"], mode=fb.get("mode:"), smt_ms=fb.get("time"),
                                      rlimit=fb.get("rlimit"), success=fb.get("success")))
    res.smt_ms = js.get("times-ms", {}).get("smt", {}).get("total", 0)
    if vr.get("encountered-vir-error") or (vr.get("encountered-error") and res.errors == 0):
        res.status = "undecided"
        msgs = [d.get("message", "") for d in r["diags"] if d.get("level") == "error"]
        res.reason = "verus rejected the assembled file: " + "; ".join(msgs[:3])
        return
    if vr.get("success"):
        res.status = "ok"
        return
    # verification errors
    undecided = []
    for d in r["diags"]:
        if d.get("level") != "error":
            continue
        msg = d.get("message", "")
        if msg.startswith("aborting due to"):
            continue
        prim = None
        label = None
        for sp in d.get("spans", []):
            if sp.get("is_primary") and prim is None:
                prim = sp
            if sp.get("label") and ("failed this" in sp["label"] or "failed precondition" in sp["label"]) and sp.get("file_name", "").endswith(res.name + ".rs"):
                label = sp
        if prim is None:
            undecided.append(msg)
            continue
        if "rlimit" in msg or "Resource limit" in msg or "timeout" in msg.lower():
            undecided.append(msg + " at " + origin_str(asm, prim["line_start"]))
            continue
        if not any(msg.startswith(v) for v in VERIFICATION_MESSAGES):
            undecided.append("unrecognised diagnostic: " + msg)
            continue
        ln = prim["line_start"]
        fn = enclosing_fn(lines, asm, ln)
        clause_sp = label or prim
        clause = norm(" ".join(t["text"][t["highlight_start"] - 1:t["highlight_end"] - 1] for t in clause_sp.get("text", [])))
        if not clause:
            clause = norm(lines[clause_sp["line_start"] - 1])
        if clause.startswith("#[") or not clause:
            clause = norm(" ".join(t["text"][t["highlight_start"] - 1:t["highlight_end"] - 1] for t in prim.get("text", [])))
        kind = msg.split(":")[0]
        site = origin_str(asm, ln)
        prim_text = norm(" ".join(t["text"][t["highlight_start"] - 1:t["highlight_end"] - 1] for t in prim.get("text", [])))
        ob = "%s::%s::%s" % (res.name, fn, kind)
        res.failed.append(dict(obligation=ob, function=fn, kind=kind, clause=clause[:300], site=site,
                               at=prim_text[:200], rendered=d.get("rendered", "")[:1500]))
    if res.failed:
        res.status = "failed"
        if undecided:
            res.reason = "also undecided: " + "; ".join(undecided[:3])
    else:
        res.status = "undecided"
        res.reason = "; ".join(undecided[:4]) or "verus reported errors that could not be parsed"


def canary_marks(text):
    marks = {}
    for i, l in enumerate(text.split("\n")):
        k = l.find("// VX-CANARY")
        if k >= 0:
            marks[i + 1] = l[k + len("// VX-CANARY"):].strip()
    return marks
